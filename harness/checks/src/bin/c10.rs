//! C10 — rounding to integers or to fewer digits picks the mathematically right neighbour.
//!
//! Everything is decided on exact rationals (num-rational): the float/rational operand is turned
//! into `n/d`, the definition of the operation (trunc/floor/ceil/round-half-away/fract, rounding
//! under one of the six modes) is evaluated there, and dashu's answer — read back through raw
//! words — has to be that number.  The two public primitives `Round::round_fract` /
//! `Round::round_ratio` are judged by `integer + adjustment == mode(integer + fraction)`.
use dashu_base::Approximation::{self, Exact, Inexact};
use dashu_float::round::{mode, Round, Rounding};
use dashu_float::{FBig, Repr};
use dashu_int::{IBig, UBig, Word};
use dashu_ratio::{RBig, Relaxed};
use dv::fl::*;
use dv::gen::{self, pick, Prof, SplitMix};
use dv::*;
use num_bigint::{BigInt, BigUint};
use num_integer::Integer;
use num_rational::BigRational;
use num_traits::{One, Signed, Zero};
use proptest::prelude::*;
use serde::{Deserialize, Serialize};
use std::cmp::Ordering;

// ------------------------------------------------------------------------------------------
// helpers
// ------------------------------------------------------------------------------------------

fn rint(n: &BigInt) -> BigRational {
    BigRational::from_integer(n.clone())
}

/// (significand, exponent) with every factor `base` moved from the significand to the exponent —
/// what `Repr::new` stores
fn norm(sig: &BigInt, exp: i64, base: u64) -> (BigInt, i64) {
    if sig.is_zero() {
        return (BigInt::zero(), 0);
    }
    let b = BigInt::from(base);
    let (mut s, mut e) = (sig.clone(), exp);
    while (&s % &b).is_zero() {
        s /= &b;
        e += 1;
    }
    (s, e)
}

fn fval<R: Round, const B: Word>(f: &FBig<R, B>) -> Result<BigRational, String> {
    Sci::from_repr(f.repr()).map(|s| s.to_rational()).ok_or_else(|| "result is infinite".to_string())
}

fn show_q(q: &BigRational) -> String {
    let s = format!("{}/{}", q.numer(), q.denom());
    truncate(&s, 160)
}

fn adj(r: Rounding) -> i32 {
    match r {
        Rounding::NoOp => 0,
        Rounding::AddOne => 1,
        Rounding::SubOne => -1,
    }
}

fn random_below(seed: u64, bound: &BigUint) -> BigUint {
    if bound.is_zero() {
        return BigUint::zero();
    }
    let mut r = SplitMix(seed);
    let words = (bound.bits() / 64 + 2) as usize;
    words_to_big(&(0..words).map(|_| r.next()).collect::<Vec<_>>()) % bound
}

fn precision0() -> BoxedStrategy<u32> {
    prop_oneof![
        3 => Just(1u32),
        3 => Just(2u32),
        2 => Just(3u32),
        6 => 4u32..=10,
        4 => 11u32..=40,
        1 => Just(64u32),
        1 => 65u32..=130,
        2 => Just(0u32), // unlimited precision
    ]
    .boxed()
}

fn p_label(p: u32) -> &'static str {
    match p {
        0 => "p:unlimited",
        1 => "p:1",
        2 => "p:2",
        3 => "p:3",
        4..=10 => "p:4-10",
        11..=40 => "p:11-40",
        _ => "p:>40",
    }
}

// ------------------------------------------------------------------------------------------
// float operands
// ------------------------------------------------------------------------------------------

#[derive(Debug, Clone, Hash, Serialize, Deserialize)]
struct FCase {
    /// precision of the context (0 = unlimited); the significand has at most p digits
    p: u32,
    x: Fl,
}

const N_FCLASS: u8 = 12;

/// digit budget: p, or a pseudo budget for unlimited precision
fn budget(p: u32, seed: u64) -> u64 {
    if p == 0 {
        1 + seed % 24
    } else {
        p as u64
    }
}

fn float_operand(base: u64, p: u32, class: u8, ksel: u16, pat: u8, seed: u64, neg: bool, gsel: u16) -> Fl {
    let pe = budget(p, seed);
    let ks = [pe, pe, pe.saturating_sub(1).max(1), 1, 1 + (seed >> 7) % pe, (pe + 1) / 2];
    let k = pick(&ks, ksel);
    let m = sig_pattern(base, k, pat, seed);
    let pei = pe as i64;
    let (sig, exp): (BigUint, i64) = match class % N_FCLASS {
        // |x| < 1 : k digits pushed g places behind the radix point: value in [B^(-g-1), B^-g)
        0 | 1 => {
            let gaps = [1i64, 2, 3, 0, pei, pei + 1, 2 * pei + 1, 5, pei - 1, 40];
            let g = pick(&gaps, gsel).max(0);
            (m, -(k as i64) - g)
        }
        // the 0.0099 shape: all digits B-1 (or B/2 0..0) far behind the point
        2 => {
            let gaps = [2i64, 1, 3, pei, pei + 1, 7];
            let g = pick(&gaps, gsel);
            let m = if pat % 3 == 0 { bpow(base, k - 1) * BigUint::from((base / 2).max(1)) } else { bpow(base, k) - BigUint::one() };
            (m, -(k as i64) - g)
        }
        // n + (1/2 - tiny | 1/2 | 1/2 + tiny): j fraction digits, integer part with <= pe - j digits
        3 | 4 => {
            let j = 1 + (seed >> 11) % pe;
            let room = pe - j;
            let n = if room == 0 || pat % 4 == 0 { BigUint::zero() } else { sig_pattern(base, 1 + (seed >> 23) % room, pat, seed ^ 0x55) };
            let pw = bpow(base, j);
            let half = &pw / BigUint::from(2u8);
            let f = match gsel % 3 {
                0 => half.clone(),
                1 => &half + BigUint::one(),
                _ => {
                    if half.is_zero() { half.clone() } else { &half - BigUint::one() }
                }
            };
            let f = if f >= pw { half } else { f };
            (n * &pw + f, -(j as i64))
        }
        // integers
        5 => {
            let es = [0i64, 1, 2, 5, 40, 400];
            (m, pick(&es, gsel))
        }
        // integer and fractional digits
        6 | 7 => {
            let j = if k >= 2 { 1 + (seed >> 13) % (k - 1) } else { 1 };
            (m, -(j as i64))
        }
        // huge exponents
        8 => {
            let e = 100 + (seed >> 17) % 301;
            (m, if gsel & 1 == 0 { e as i64 } else { -(e as i64) })
        }
        // zero
        9 => (BigUint::zero(), (gsel % 9) as i64 - 4),
        // around the |x| < 1 shortcut: top digit at position -1, -2, -3, -4
        10 => (m, -(k as i64) - (gsel % 4) as i64),
        _ => (m, (gsel % 13) as i64 - 6),
    };
    let sig = if p != 0 && sig >= bpow(base, p as u64) { sig_pattern(base, p as u64, pat, seed) } else { sig };
    let n = if neg { -BigInt::from(sig) } else { BigInt::from(sig) };
    fl_from(&n, exp)
}

fn float_case(base: u64) -> impl Strategy<Value = FCase> {
    (precision0(), 0u8..N_FCLASS, any::<u16>(), 0u8..9, any::<u64>(), any::<bool>(), any::<u16>())
        .prop_map(move |(p, class, ksel, pat, seed, neg, gsel)| FCase { p, x: float_operand(base, p, class, ksel, pat, seed, neg, gsel) })
}

struct Shape {
    q: BigRational,
    /// normalised significand / exponent (what Repr stores) and its digit count
    ns: BigInt,
    ne: i64,
    d: u64,
}

fn shape(c: &FCase, base: u64, out: &mut Out) -> Shape {
    let q = c.x.sci(base).to_rational();
    let (ns, ne) = norm(&c.x.sig.big(), c.x.exp, base);
    let d = digits(ns.magnitude(), base);
    out.label(p_label(c.p));
    // classes follow the branches of round_ops.rs / convert.rs
    if ns.is_zero() {
        out.label("x:zero");
    } else if ne >= 0 {
        out.label("x:integer (exponent >= 0)");
    } else if ne + d as i64 <= -2 {
        // |x| < B^-2: the only values for which Repr::smaller_than_one() can fire
        out.label("x:|x| < B^-2 (smaller_than_one shortcut)");
        if c.p == 0 || (c.p as i64) < -ne {
            out.label("x:fraction scale beyond precision (-exponent > p)");
        }
    } else if ne + d as i64 <= 0 {
        out.label("x:|x| < 1, split path");
    } else {
        out.label("x:integer and fractional digits");
    }
    if q.is_negative() {
        out.label("x:negative");
    }
    if !q.is_integer() {
        let two_f = (q.fract() * rint(&BigInt::from(2))).abs();
        match two_f.cmp(&BigRational::one()) {
            Ordering::Equal => out.label("fraction: exactly 1/2"),
            Ordering::Less => out.label("fraction: < 1/2"),
            Ordering::Greater => out.label("fraction: > 1/2"),
        }
    }
    if ne.abs() >= 100 {
        out.label("x:huge exponent");
    }
    Shape { q, ns, ne, d }
}

/// What the defect of `split_at_point_internal` (fraction scale := precision instead of -exponent)
/// returns for a value on the smaller_than_one path, for a nearest mode.
fn scale_bug_model(s: &Shape, p: u32, base: u64, mode_: Mode) -> Option<BigInt> {
    if s.ns.is_zero() || s.ne >= 0 || s.ne + s.d as i64 > -2 {
        return None;
    }
    if p != 0 && (p as i64) >= -s.ne {
        return None; // a larger scale only makes the fraction smaller: the answer stays 0
    }
    if !mode_.is_half() {
        return None;
    }
    if p == 0 {
        // B^0 = 1 <= |fract|: the half test says "greater"
        return Some(BigInt::from(if s.ns.is_negative() { -1 } else { 1 }));
    }
    let wrong = BigRational::new(s.ns.clone(), BigInt::from(bpow(base, p as u64)));
    Some(round_rational(&wrong, mode_))
}

const KF_SCALE: &str = "C10/small-fraction-scale";
const KF_PREC: &str = "C10/shortcut-result-precision";

/// Same defect with unlimited precision (scale B^0 = 1): a build with debug assertions stops at
/// the precondition check of `round_fract` instead of returning ±1.
fn scale_bug_panic(s: &Shape, p: u32, msg: &str) -> bool {
    p == 0 && !s.ns.is_zero() && s.ne < 0 && s.ne + s.d as i64 <= -2 && msg.contains("fract.clone().unsigned_abs() < UBig::from_word(B).pow(precision)")
}

// ------------------------------------------------------------------------------------------
// float_round_ops: trunc / floor / ceil / round / fract / split_at_point
// ------------------------------------------------------------------------------------------

fn run_ops<R: ModeTag, const B: Word>(c: &FCase, ctx: &Ctx) -> Out {
    let mut out = Out::new();
    let base = B as u64;
    let s = shape(c, base, &mut out);
    let q = &s.q;
    out.nontrivial(!q.is_integer());
    let f: FBig<R, B> = c.x.fbig(c.p as usize);
    let p = c.p as usize;

    let want_trunc = q.trunc();
    let want_fract = q - &want_trunc;
    let want_round = rint(&round_rational(q, Mode::HalfAway));
    // precision promised by the rustdoc of FBig::round (trunc/floor/ceil refer to it):
    // integer -> unchanged; otherwise minus the number of fractional digits (0 = unlimited)
    let want_prec = if s.ne >= 0 { p } else { p.saturating_sub((-s.ne) as usize) };

    let mut got_trunc: Option<(BigRational, usize)> = None;
    let mut got_fract: Option<(BigRational, usize)> = None;

    let ops: [(&'static str, BigRational); 4] = [("trunc", want_trunc.clone()), ("floor", q.floor()), ("ceil", q.ceil()), ("round", want_round)];
    for (name, want) in ops.iter() {
        let r = catch(|| match *name {
            "trunc" => f.trunc(),
            "floor" => f.floor(),
            "ceil" => f.ceil(),
            _ => f.round(),
        });
        match r {
            Err(m) => {
                let detail = || format!("FBig::{name} (base {base}, p={p}) of {} panicked: {}", c.x.sci(base).show(), normalise(&m));
                if *name == "round" && scale_bug_panic(&s, c.p, &m) {
                    ctx.known_or_fail(&mut out, KF_SCALE, detail);
                } else {
                    out.fail(detail());
                }
            }
            Ok(g) => match fval(&g) {
                Err(e) => out.fail(format!("FBig::{name}: {e}")),
                Ok(v) => {
                    if &v != want {
                        let detail = || format!("FBig::{name} (base {base}, p={p}) of {} = {}, want {}", c.x.sci(base).show(), show_q(&v), show_q(want));
                        let model = scale_bug_model(&s, c.p, base, Mode::HalfAway);
                        if *name == "round" && model.as_ref().map(rint).as_ref() == Some(&v) {
                            ctx.known_or_fail(&mut out, KF_SCALE, detail);
                        } else {
                            out.fail(detail());
                        }
                    }
                    if *name == "trunc" {
                        got_trunc = Some((v, g.precision()));
                    }
                }
            },
        }
    }
    match catch(|| f.fract()) {
        Err(m) => out.fail(format!("FBig::fract (base {base}, p={p}) panicked: {}", normalise(&m))),
        Ok(g) => match fval(&g) {
            Err(e) => out.fail(format!("FBig::fract: {e}")),
            Ok(v) => {
                out.check(v == want_fract, || format!("FBig::fract (base {base}, p={p}) of {} = {}, want {}", c.x.sci(base).show(), show_q(&v), show_q(&want_fract)));
                let gp = g.precision();
                got_fract = Some((v, gp));
            }
        },
    }
    if let (Some((t, _)), Some((fr, _))) = (&got_trunc, &got_fract) {
        out.check(&(t + fr) == q, || format!("trunc(x) + fract(x) != x for {} (base {base}, p={p}): {} + {}", c.x.sci(base).show(), show_q(t), show_q(fr)));
    }
    match catch(|| f.clone().split_at_point()) {
        Err(m) => out.fail(format!("FBig::split_at_point (base {base}, p={p}) panicked: {}", normalise(&m))),
        Ok((a, b)) => match (fval(&a), fval(&b)) {
            (Ok(va), Ok(vb)) => {
                out.check(va == want_trunc && vb == want_fract, || {
                    format!("FBig::split_at_point (base {base}, p={p}) of {} = ({}, {}), want ({}, {})", c.x.sci(base).show(), show_q(&va), show_q(&vb), show_q(&want_trunc), show_q(&want_fract))
                });
                out.check(&(&va + &vb) == q, || format!("split_at_point parts do not recombine for {} (base {base})", c.x.sci(base).show()));
            }
            _ => out.fail("FBig::split_at_point: infinite part".to_string()),
        },
    }
    out
}

// ------------------------------------------------------------------------------------------
// float_to_int
// ------------------------------------------------------------------------------------------

fn judge_int(out: &mut Out, what: &str, got: &Approximation<IBig, Rounding>, want: &BigInt, q: &BigRational) -> bool {
    let (v, flag) = match got {
        Exact(v) => (i2n(v), None),
        Inexact(v, r) => (i2n(v), Some(*r)),
    };
    let value_ok = &v == want;
    // Exact <=> the value is an integer
    match (flag, q.is_integer()) {
        (None, false) => out.fail(format!("{what}: flagged Exact but {} is not an integer", show_q(q))),
        (Some(r), true) => out.fail(format!("{what}: flagged Inexact({r:?}) but the value is the integer {}", show_q(q))),
        _ => {}
    }
    let vq = rint(&v);
    match flag {
        Some(Rounding::AddOne) if vq <= *q => out.fail(format!("{what}: AddOne but result {} <= true value {}", show_i(&v), show_q(q))),
        Some(Rounding::SubOne) if vq >= *q => out.fail(format!("{what}: SubOne but result {} >= true value {}", show_i(&v), show_q(q))),
        _ => {}
    }
    value_ok
}

fn run_toint<R: ModeTag, const B: Word>(c: &FCase, ctx: &Ctx) -> Out {
    let mut out = Out::new();
    let base = B as u64;
    let s = shape(c, base, &mut out);
    let q = &s.q;
    out.nontrivial(!q.is_integer());
    let p = c.p;
    let f: FBig<R, B> = c.x.fbig(p as usize);
    let want = round_rational(q, R::MODE);
    match catch(|| f.to_int()) {
        Err(m) => {
            let detail = || format!("FBig::to_int (base {base}, {}, p={p}) of {} panicked: {}", R::MODE.name(), c.x.sci(base).show(), normalise(&m));
            if scale_bug_panic(&s, p, &m) {
                ctx.known_or_fail(&mut out, KF_SCALE, detail);
            } else {
                out.fail(detail());
            }
        }
        Ok(r) => {
            let what = format!("FBig::to_int (base {base}, {}, p={p}) of {}", R::MODE.name(), c.x.sci(base).show());
            let ok = judge_int(&mut out, &what, &r, &want, q);
            match &r {
                Exact(_) => out.label("to_int: Exact"),
                Inexact(_, Rounding::NoOp) => out.label("to_int: Inexact NoOp"),
                Inexact(_, Rounding::AddOne) => out.label("to_int: Inexact AddOne"),
                Inexact(_, Rounding::SubOne) => out.label("to_int: Inexact SubOne"),
            }
            if !ok {
                let v = i2n(r.value_ref());
                let detail = || format!("{what} = {}, want {}", show_i(&v), show_i(&want));
                if scale_bug_model(&s, p, base, R::MODE).as_ref() == Some(&v) {
                    ctx.known_or_fail(&mut out, KF_SCALE, detail);
                } else {
                    out.fail(detail());
                }
            }
        }
    }
    // Repr::to_int: "The fractional part is always rounded to zero."
    let rp: Repr<B> = c.x.repr::<B>();
    match catch(|| rp.to_int()) {
        Err(m) => out.fail(format!("Repr::to_int (base {base}) panicked: {}", normalise(&m))),
        Ok(r) => {
            let what = format!("Repr::to_int (base {base}) of {}", c.x.sci(base).show());
            let want = q.trunc().to_integer();
            if !judge_int(&mut out, &what, &r, &want, q) {
                out.fail(format!("{what} = {}, want {}", show_i(&i2n(r.value_ref())), show_i(&want)));
            }
        }
    }
    out
}

// ------------------------------------------------------------------------------------------
// with_precision
// ------------------------------------------------------------------------------------------

#[derive(Debug, Clone, Hash, Serialize, Deserialize)]
struct WCase {
    p: u32,
    x: Fl,
    p2: u32,
}

fn wprec_case(base: u64) -> impl Strategy<Value = WCase> {
    (precision0(), 0u8..6, any::<u16>(), 0u8..9, any::<u64>(), any::<bool>(), any::<u16>(), any::<u16>()).prop_map(move |(p, class, ksel, pat, seed, neg, gsel, p2sel)| {
        let pe = budget(p, seed);
        let exps = [0i64, -1, 1, -3, 5, -(pe as i64), -(pe as i64) - 2, 40, -40, 400, -400];
        let e = pick(&exps, gsel);
        match class {
            // the low part removed by with_precision(p2) is 1/2 - tiny | 1/2 | 1/2 + tiny of the new last digit
            0 | 1 if pe >= 2 => {
                let j = 1 + (seed >> 11) % (pe - 1); // removed digits
                let keep = pe - j;
                let kk = 1 + (seed >> 23) % keep;
                let n = sig_pattern(base, kk, pat, seed ^ 0x33);
                let pw = bpow(base, j);
                let half = &pw / BigUint::from(2u8);
                let f = match (seed >> 3) % 3 {
                    0 => half.clone(),
                    1 => &half + BigUint::one(),
                    _ => {
                        if half.is_zero() { half.clone() } else { &half - BigUint::one() }
                    }
                };
                let f = if f >= pw { half } else { f };
                let sig = BigInt::from(n * pw + f);
                let x = fl_from(&if neg { -sig } else { sig }, e);
                // p2 = kept digits (tie), or a neighbour
                let p2 = pick(&[kk, kk, kk, kk + 1, kk.saturating_sub(1).max(1)], p2sel) as u32;
                WCase { p, x, p2 }
            }
            _ => {
                let x = float_operand(base, p, if class == 2 { 2 } else { 11 }, ksel, pat, seed, neg, gsel);
                let x = Fl { sig: x.sig, exp: if class == 3 { x.exp } else { e } };
                let d = x.digits(base).max(1);
                let pp = if p == 0 { d + 3 } else { p as u64 };
                let cands = [d.saturating_sub(1).max(1), d, d + 1, 1, 0, pp, pp + 1, (d + 1) / 2, 1 + (seed >> 29) % d, 2, d.saturating_sub(2).max(1), pp.saturating_sub(1).max(1)];
                WCase { p, x, p2: pick(&cands, p2sel) as u32 }
            }
        }
    })
}

const KF_WP_UNLIMITED: &str = "C10/with-precision-from-unlimited";

fn run_wprec<R: ModeTag, const B: Word>(c: &WCase, ctx: &Ctx) -> Out {
    let mut out = Out::new();
    let base = B as u64;
    let sx = c.x.sci(base);
    let (ns, ne) = norm(&c.x.sig.big(), c.x.exp, base);
    let d = digits(ns.magnitude(), base);
    let (p, p2) = (c.p, c.p2);
    out.label(p_label(p));
    out.label(if p2 == 0 {
        "p2: unlimited"
    } else if (p2 as u64) < d {
        "p2: fewer than the digits (rounds)"
    } else if p2 as u64 == d {
        "p2: exactly the digits"
    } else {
        "p2: more than the digits"
    });
    let rounds = p2 != 0 && (p2 as u64) < d;
    out.nontrivial(rounds);
    // the definition: drop d - p2 digits of the significand under the mode
    let want: Sci = if rounds {
        let shift = d - p2 as u64;
        let frac = BigRational::new(ns.clone(), BigInt::from(bpow(base, shift)));
        let two_f = (frac.fract() * rint(&BigInt::from(2))).abs();
        out.label(match two_f.cmp(&BigRational::one()) {
            Ordering::Equal => "removed part: exactly 1/2",
            Ordering::Less => "removed part: < 1/2",
            Ordering::Greater => "removed part: > 1/2",
        });
        let w = round_rational(&frac, R::MODE);
        if w.magnitude() == &bpow(base, p2 as u64) {
            out.label("carry into a new digit");
        }
        Sci::new(w, ne + shift as i64, base)
    } else {
        sx.clone()
    };
    let f: FBig<R, B> = c.x.fbig(p as usize);
    let what = format!("FBig::with_precision({p2}) (base {base}, {}, from p={p}) of {}", R::MODE.name(), sx.show());
    match catch(|| f.with_precision(p2 as usize)) {
        Err(m) => out.fail(format!("{what} panicked: {}", normalise(&m))),
        Ok(r) => match res_of(&r) {
            Err(e) => out.fail(format!("{what}: {e}")),
            Ok(res) => {
                let mut fails: Vec<String> = Vec::new();
                if res.precision != p2 as usize {
                    fails.push(format!("result carries precision {} instead of {p2}", res.precision));
                }
                if res.val.cmp(&want) != Ordering::Equal {
                    fails.push(format!("value {} differs from the correctly rounded {}", res.val.show(), want.show()));
                }
                if !rounds && res.flag.is_some() {
                    fails.push(format!("flagged Inexact({:?}) although nothing had to be removed", res.flag));
                }
                if p2 != 0 {
                    if res.sig >= bpow(base, p2 as u64) {
                        fails.push(format!("result has {} digits at precision {p2}", digits(&res.sig, base)));
                    }
                    let truth = Truth::Val(sx.clone());
                    let broken = contract(&truth, &res, p2 as u64, R::MODE);
                    if !broken.is_empty() {
                        let all: Vec<&str> = broken.iter().map(|b| b.clause).collect();
                        fails.push(format!("rounding contract: {} [{}]", broken[0].msg, all.join(",")));
                    }
                } else if res.flag.is_some() {
                    fails.push("unlimited target precision must be exact".into());
                }
                out.label(match res.flag {
                    None => "flag: Exact",
                    Some(Rounding::NoOp) => "flag: NoOp",
                    Some(Rounding::AddOne) => "flag: AddOne",
                    Some(Rounding::SubOne) => "flag: SubOne",
                });
                if !fails.is_empty() {
                    let detail = || format!("{what}: {}; got {} flag {:?}", fails.join("; "), res.val.show(), res.flag);
                    // defect: a source with unlimited precision (0) is never rounded, the value comes back unchanged and Exact
                    if p == 0 && rounds && res.flag.is_none() && res.val.cmp(&sx) == Ordering::Equal && res.precision == p2 as usize {
                        ctx.known_or_fail(&mut out, KF_WP_UNLIMITED, detail);
                    } else {
                        out.fail(detail());
                    }
                }
            }
        },
    }
    out
}

// ------------------------------------------------------------------------------------------
// rbig_round
// ------------------------------------------------------------------------------------------

#[derive(Debug, Clone, Hash, Serialize, Deserialize)]
struct RCase {
    num: Int,
    den: Nat,
}

fn rbig_case() -> impl Strategy<Value = RCase> {
    (0u8..10, gen::int(Prof::Medium), gen::nat_nz(Prof::Medium), gen::nat_nz(Prof::Tiny), any::<u64>(), -40i64..=40, 1u64..=24).prop_map(|(class, a, b, g, seed, sn, sd)| {
        let (an, bn, gn) = (a.big(), BigInt::from(b.big()), BigInt::from(g.big()));
        let two = BigInt::from(2);
        let (num, den): (BigInt, BigInt) = match class {
            // small
            0 => (BigInt::from(sn), BigInt::from(sd)),
            // small ties k + 1/2, unreduced by a small factor
            1 => (BigInt::from(2 * sn + 1) * BigInt::from(sd), BigInt::from(2 * sd)),
            // big ties, scaled by g (visible to Relaxed only)
            2 => ((&an * &two + BigInt::one()) * &gn, &two * &gn),
            // integers n*d / d
            3 => (&an * &bn, bn.clone()),
            // k + (floor(d/2) + {-1,0,1}) / d
            4 | 5 => {
                let k = BigInt::from(sn);
                let off = BigInt::from((seed % 3) as i64 - 1);
                let h = &bn / &two + off;
                let h = if h.is_negative() || h >= bn { BigInt::zero() } else { h };
                let v = &k * &bn + if k.is_negative() { -h } else { h };
                (v, bn.clone())
            }
            // |x| < 1
            6 => {
                let r = an.magnitude() % bn.magnitude();
                (if a.neg { -BigInt::from(r) } else { BigInt::from(r) }, bn.clone())
            }
            // shared factor
            7 => (&an * &gn, &bn * &gn),
            _ => (an.clone(), bn.clone()),
        };
        RCase { num: Int::from_big(&num), den: Nat::from_big(den.magnitude()) }
    })
}

fn run_rbig(c: &RCase, _ctx: &Ctx) -> Out {
    let mut out = Out::new();
    let q = BigRational::new(c.num.big(), BigInt::from(c.den.big()));
    out.nontrivial(!q.is_integer());
    out.label(gen::repr_class(c.num.mag.trimmed_len().max(c.den.trimmed_len())));
    if q.is_negative() {
        out.label("x:negative");
    }
    if q.is_integer() {
        out.label("x:integer");
    } else {
        let two_f = (q.fract() * rint(&BigInt::from(2))).abs();
        out.label(match two_f.cmp(&BigRational::one()) {
            Ordering::Equal => "fraction: exactly 1/2",
            Ordering::Less => "fraction: < 1/2",
            Ordering::Greater => "fraction: > 1/2",
        });
    }
    if q.numer().magnitude() < q.denom().magnitude() {
        out.label("x:|x| < 1");
    }
    let want_trunc = q.trunc().to_integer();
    let want_floor = q.floor().to_integer();
    let want_ceil = q.ceil().to_integer();
    let want_round = round_rational(&q, Mode::HalfAway);
    let want_fract = &q - rint(&want_trunc);

    macro_rules! judge {
        ($tn:literal, $x:expr) => {{
            let x = $x;
            let ints: [(&str, Result<IBig, String>, &BigInt); 4] = [
                ("trunc", catch(|| x.trunc()), &want_trunc),
                ("floor", catch(|| x.floor()), &want_floor),
                ("ceil", catch(|| x.ceil()), &want_ceil),
                ("round", catch(|| x.round()), &want_round),
            ];
            let mut t_ok = None;
            for (name, got, want) in ints {
                match got {
                    Err(m) => out.fail(format!("{}::{name} panicked: {}", $tn, normalise(&m))),
                    Ok(g) => {
                        let g = i2n(&g);
                        out.check(&g == want, || format!("{}::{name} of {} = {}, want {}", $tn, show_q(&q), show_i(&g), show_i(want)));
                        if name == "trunc" {
                            t_ok = Some(g);
                        }
                    }
                }
            }
            match catch(|| x.fract()) {
                Err(m) => out.fail(format!("{}::fract panicked: {}", $tn, normalise(&m))),
                Ok(g) => {
                    let gq = rat(g.numerator(), g.denominator());
                    out.check(gq == want_fract, || format!("{}::fract of {} = {}, want {}", $tn, show_q(&q), show_q(&gq), show_q(&want_fract)));
                    if let Some(t) = &t_ok {
                        out.check(rint(t) + &gq == q, || format!("{}: trunc + fract != self for {}", $tn, show_q(&q)));
                    }
                }
            }
            // to_int: the truncated value, Exact exactly when there is no fractional part; the
            // fraction handed back with Inexact is the fractional part
            match catch(|| x.to_int()) {
                Err(m) => out.fail(format!("{}::to_int panicked: {}", $tn, normalise(&m))),
                Ok(dashu_base::Approximation::Exact(t)) => out.check(q.is_integer() && i2n(&t) == want_trunc, || format!("{}::to_int of {} = Exact({})", $tn, show_q(&q), show_i(&i2n(&t)))),
                Ok(dashu_base::Approximation::Inexact(t, f)) => {
                    let fq = rat(f.numerator(), f.denominator());
                    out.check(!q.is_integer() && i2n(&t) == want_trunc && fq == want_fract, || format!("{}::to_int of {} = Inexact({}, {}), want trunc {} and fract {}", $tn, show_q(&q), show_i(&i2n(&t)), show_q(&fq), show_i(&want_trunc), show_q(&want_fract)));
                }
            }
            match catch(|| x.clone().split_at_point()) {
                Err(m) => out.fail(format!("{}::split_at_point panicked: {}", $tn, normalise(&m))),
                Ok((t, g)) => {
                    let gq = rat(g.numerator(), g.denominator());
                    let t = i2n(&t);
                    out.check(t == want_trunc && gq == want_fract, || format!("{}::split_at_point of {} = ({}, {}), want ({}, {})", $tn, show_q(&q), show_i(&t), show_q(&gq), show_i(&want_trunc), show_q(&want_fract)));
                }
            }
        }};
    }
    let (n, d): (IBig, UBig) = (c.num.ibig(), c.den.ubig());
    match catch(|| RBig::from_parts(n.clone(), d.clone())) {
        Err(m) => out.fail(format!("RBig::from_parts panicked: {}", normalise(&m))),
        Ok(x) => judge!("RBig", x),
    }
    match catch(|| Relaxed::from_parts(n.clone(), d.clone())) {
        Err(m) => out.fail(format!("Relaxed::from_parts panicked: {}", normalise(&m))),
        Ok(x) => judge!("Relaxed", x),
    }
    out
}

// ------------------------------------------------------------------------------------------
// the primitives
// ------------------------------------------------------------------------------------------

fn int_part() -> BoxedStrategy<Int> {
    prop_oneof![
        3 => Just(Int::from_i128(0)),
        4 => (-3i128..=3).prop_map(Int::from_i128),
        2 => any::<i64>().prop_map(|v| Int::from_i128(v as i128)),
        1 => prop_oneof![Just(i128::MAX), Just(i128::MIN + 1), Just(u64::MAX as i128), Just(-(u64::MAX as i128)), Just(1i128 << 64), Just(-(1i128 << 64))].prop_map(Int::from_i128),
        2 => gen::int(Prof::Small),
    ]
    .boxed()
}

#[derive(Debug, Clone, Hash, Serialize, Deserialize)]
struct RfCase {
    integer: Int,
    fract: Int,
    digits: u32,
}

/// magnitude classes for a low part relative to its modulus `m` (result < m)
fn low_part(m: &BigUint, class: u8, seed: u64) -> BigUint {
    if m.is_zero() || m.is_one() {
        return BigUint::zero();
    }
    let half = m / BigUint::from(2u8);
    let one = BigUint::one();
    let v = match class {
        0 => BigUint::zero(),
        1 => one.clone(),
        2 => m - &one,
        3 | 4 => half.clone(),
        5 => &half + &one,
        6 => {
            if half.is_zero() { half.clone() } else { &half - &one }
        }
        7 => {
            let o = BigUint::from(seed % 5);
            if seed & 8 == 0 { &half + o } else if half > o { &half - o } else { half.clone() }
        }
        // within 2^-20 relative of the half
        8 => &half + random_below(seed, &((m >> 20u32) + &one)),
        9 => {
            let o = random_below(seed, &((m >> 20u32) + &one));
            if half > o { &half - o } else { half.clone() }
        }
        _ => random_below(seed, m),
    };
    if &v >= m {
        m - one
    } else {
        v
    }
}

fn rfract_case(base: u64) -> impl Strategy<Value = RfCase> {
    (
        int_part(),
        prop_oneof![3 => 0u32..=3, 6 => 4u32..=20, 4 => 21u32..=60, 1 => 61u32..=400, 1 => prop_oneof![Just(1000u32), 2000u32..=12000]],
        0u8..14,
        any::<u64>(),
        any::<bool>(),
    )
        .prop_map(move |(integer, digits, class, seed, neg)| {
            let pw = bpow(base, digits as u64);
            let f = low_part(&pw, class, seed);
            RfCase { integer, fract: Int { neg: neg && !f.is_zero(), mag: Nat::from_big(&f) }, digits }
        })
}

fn judge_primitive(out: &mut Out, what: &str, integer: &BigInt, frac: &BigRational, got: Result<Rounding, String>, mode_: Mode) {
    let v = rint(integer) + frac;
    let want = round_rational(&v, mode_);
    if integer.is_zero() {
        out.label("integer part: zero");
    } else if frac.is_zero() {
        out.label("fraction: zero");
    } else if integer.is_negative() == frac.is_negative() {
        out.label("signs: integer and fraction agree");
    } else {
        out.label("signs: integer and fraction opposite");
    }
    if !frac.is_zero() {
        out.label(match (frac.abs() * rint(&BigInt::from(2))).cmp(&BigRational::one()) {
            Ordering::Equal => "|fraction| = 1/2",
            Ordering::Less => "|fraction| < 1/2",
            Ordering::Greater => "|fraction| > 1/2",
        });
        out.label(if integer.is_even() { "integer part: even" } else { "integer part: odd" });
    }
    out.nontrivial(!frac.is_zero());
    match got {
        Err(m) => out.fail(format!("{what} panicked: {}", normalise(&m))),
        Ok(r) => {
            out.label(match r {
                Rounding::NoOp => "adjustment: NoOp",
                Rounding::AddOne => "adjustment: AddOne",
                Rounding::SubOne => "adjustment: SubOne",
            });
            let res = integer + BigInt::from(adj(r));
            out.check(res == want, || format!("{what} = {r:?}: integer + adjustment = {}, but {}({}) = {}", show_i(&res), mode_.name(), show_q(&v), show_i(&want)));
        }
    }
}

fn run_rfract<R: ModeTag, const B: Word>(c: &RfCase, _ctx: &Ctx) -> Out {
    let mut out = Out::new();
    let base = B as u64;
    let pw = bpow(base, c.digits as u64);
    let (integer, fract) = (c.integer.big(), c.fract.big());
    if fract.magnitude() >= &pw {
        // precondition of the primitive (debug_assert); never generated, but a hand-written replay could
        out.inconclusive("fract >= B^digits: outside the primitive's precondition");
        return out;
    }
    out.label(match c.digits {
        0 => "digits: 0",
        1..=3 => "digits: 1-3",
        4..=20 => "digits: 4-20",
        21..=60 => "digits: 21-60",
        61..=400 => "digits: 61-400",
        _ => "digits: >= 1000",
    });
    let frac = BigRational::new(fract.clone(), BigInt::from(pw));
    let (di, df) = (c.integer.ibig(), c.fract.ibig());
    let got = catch(|| R::round_fract::<B>(&di, df, c.digits as usize));
    let what = format!("{}::round_fract::<{base}>({}, {}, {})", R::MODE.name(), show_i(&integer), show_i(&fract), c.digits);
    judge_primitive(&mut out, &what, &integer, &frac, got, R::MODE);
    out
}

#[derive(Debug, Clone, Hash, Serialize, Deserialize)]
struct RrCase {
    integer: Int,
    num: Int,
    den: Int,
}

fn rratio_case() -> impl Strategy<Value = RrCase> {
    (
        int_part(),
        prop_oneof![
            2 => (1u64..=12).prop_map(|v| Nat(vec![v])),
            1 => (0u32..130).prop_map(|k| Nat::from_big(&(BigUint::one() << k))),
            1 => any::<u64>().prop_map(|v| Nat(vec![v.max(1)])),
            2 => gen::nat_nz(Prof::Small),
            1 => gen::nat_nz(Prof::Medium),
        ],
        0u8..14,
        any::<u64>(),
        any::<bool>(),
        any::<bool>(),
    )
        .prop_map(|(integer, den, class, seed, nneg, dneg)| {
            let m = den.big();
            let n = low_part(&m, class, seed);
            RrCase { integer, num: Int { neg: nneg && !n.is_zero(), mag: Nat::from_big(&n) }, den: Int { neg: dneg, mag: den } }
        })
}

fn run_rratio<R: ModeTag>(c: &RrCase, _ctx: &Ctx) -> Out {
    let mut out = Out::new();
    let (integer, num, den) = (c.integer.big(), c.num.big(), c.den.big());
    if den.is_zero() || num.magnitude() >= den.magnitude() {
        out.inconclusive("|num| >= |den| or den = 0: outside the primitive's precondition");
        return out;
    }
    out.label(if den.is_negative() { "denominator: negative" } else { "denominator: positive" });
    out.label(gen::repr_class(c.den.mag.trimmed_len()));
    let frac = BigRational::new(num.clone(), den.clone());
    let (di, dn, dd) = (c.integer.ibig(), c.num.ibig(), c.den.ibig());
    let got = catch(|| R::round_ratio(&di, dn, &dd));
    let what = format!("{}::round_ratio({}, {}, {})", R::MODE.name(), show_i(&integer), show_i(&num), show_i(&den));
    judge_primitive(&mut out, &what, &integer, &frac, got, R::MODE);
    out
}

// ------------------------------------------------------------------------------------------

macro_rules! subs {
    ($ck:ident, $($b:literal $bn:literal),*) => {$(
        $ck.sub(concat!("ops_b", $bn, "_Zero"), (3_000, 75_000), || float_case($b), run_ops::<mode::Zero, $b>);
        $ck.sub(concat!("ops_b", $bn, "_HalfEven"), (3_000, 75_000), || float_case($b), run_ops::<mode::HalfEven, $b>);
        subs!(@m $ck, $b, $bn, Zero, Away, Up, Down, HalfEven, HalfAway);
    )*};
    (@m $ck:ident, $b:literal, $bn:literal, $($m:ident),*) => {$(
        $ck.sub(concat!("toint_b", $bn, "_", stringify!($m)), (1_500, 37_500), || float_case($b), run_toint::<mode::$m, $b>);
        $ck.sub(concat!("wprec_b", $bn, "_", stringify!($m)), (1_500, 37_500), || wprec_case($b), run_wprec::<mode::$m, $b>);
        $ck.sub(concat!("rfract_b", $bn, "_", stringify!($m)), (1_600, 40_000), || rfract_case($b), run_rfract::<mode::$m, $b>);
    )*};
}

macro_rules! ratio_subs {
    ($ck:ident, $($m:ident),*) => {$(
        $ck.sub(concat!("rratio_", stringify!($m)), (3_000, 75_000), rratio_case, run_rratio::<mode::$m>);
    )*};
}

fn main() {
    let mut ck = Check::new(
        "C10",
        "FBig trunc/floor/ceil/round/fract/split_at_point (5 bases; the type's mode is irrelevant, two are instantiated), to_int and with_precision (6 modes × bases {2,3,10,16,36}), RBig/Relaxed trunc/floor/ceil/round/fract/split_at_point/to_int, and the primitives Round::round_fract (6 modes × 5 bases) / round_ratio (6 modes). Float operands have <= p digits (p ∈ 1..130 or unlimited) from digit patterns (1 0..0, B-1 repeated, half, random, ...) in the classes: |x| < 1/B with -exponent beyond the precision, the 0.0099 shape, n + 1/2 and n + 1/2 ± one unit in the last place, integers, mixed integer/fraction digits, the smaller_than_one boundary (top digit at 10^-1..10^-4), exponents to ±400, zero, negatives; with_precision targets {0, 1, d-1, d, d+1, p, p+1, d/2} and constructed ties of the removed part; rationals: small, k+1/2 (scaled), integers, k + (d/2 ± 1)/d, |x|<1, shared factors, up to ~70 words; primitives: integer part 0, ±1..3 (parity), word/dword boundaries, random; low part 0, 1, m-1, m/2, m/2 ± 1, m/2 ± small, within 2^-20 of m/2, random, both signs independent of the integer's, digits 0..60 (rarely to 12000), negative denominators. Oracle: the definition evaluated on exact rationals (num-rational) — floor/ceil/trunc/ties-away, mode(x) for the six modes, trunc + fract = x, Exact <=> no fraction, AddOne => result > x, SubOne => result < x, integer + adjustment = mode(integer + fraction); with_precision additionally by the six-clause contract and digits <= p2. Non-trivial: the fractional (removed) part is non-zero; distinct by case digest.",
    );
    subs!(ck, 2 "2", 3 "3", 10 "10", 16 "16", 36 "36");
    ck.sub("rbig_round", (15_000, 375_000), rbig_case, run_rbig);
    ratio_subs!(ck, Zero, Away, Up, Down, HalfEven, HalfAway);
    ck.finish();
}
