//! C14 — cross-type numeric comparison (NumOrd, AbsOrd, AbsEq, PartialOrd/PartialEq) and hashing
//! (NumHash) agree with the exact real values.
//!
//! A case is a pair of exact values (a, b), each given as ± (n/d) · base^exp or as a special
//! (±inf, NaN, −0.0).  Each value is materialised in *every* type that represents it exactly
//! (UBig, IBig, FBig in bases 2/10/16/3, float Repr, RBig, Relaxed, all primitive integers, f32,
//! f64) and every implemented (Self, Rhs) trait pair is probed on (rep of a, rep of b); the lists of
//! implemented pairs below are compile-checked (a pair without an impl does not build).
#![allow(deprecated)] // AbsEq is deprecated but still a public comparison trait
use dashu_base::{AbsEq, AbsOrd};
use dashu_float::round::mode;
use dashu_float::{Context, FBig, Repr};
use dashu_int::{IBig, UBig};
use dashu_ratio::{RBig, Relaxed};
use dv::ball::Ball;
use dv::fl::{bpow, Sci};
use dv::gen::{self, SplitMix};
use dv::*;
use num_bigint::{BigInt, BigUint};
use num_integer::Integer;
use num_order::{NumHash, NumOrd};
use num_rational::BigRational;
use num_traits::{One, Signed, ToPrimitive, Zero};
use proptest::prelude::*;
use serde::{Deserialize, Serialize};
use std::cmp::Ordering;
use std::collections::hash_map::DefaultHasher;
use std::hash::{Hash, Hasher};

// ---------------------------------------------------------------------------------------------
// case data

/// ± (n/d) · base^exp, or a special value
#[derive(Debug, Clone, Hash, Serialize, Deserialize, PartialEq, Eq)]
struct Val {
    /// 0 finite, 1 +inf, 2 −inf, 3 NaN, 4 negative zero
    kind: u8,
    neg: bool,
    n: Nat,
    d: Nat,
    base: u32,
    exp: i64,
    /// common factor multiplied into numerator and denominator of the `Relaxed` form
    k: Nat,
    /// FBig precision: 0 unlimited, 1 = number of digits, 2 = digits + 7
    prec: u8,
}

#[derive(Debug, Clone, Hash, Serialize, Deserialize)]
struct Case {
    a: Val,
    b: Val,
    rel: u8,
    salt: u32,
}

const K_FIN: u8 = 0;
const K_PINF: u8 = 1;
const K_NINF: u8 = 2;
const K_NAN: u8 = 3;
const K_NZERO: u8 = 4;

/// materialisation limit (bits) for integers / rationals / exact cross multiplication
const LIMIT: u64 = 200_000;

fn mersenne() -> BigUint {
    (BigUint::one() << 127u32) - BigUint::one()
}

fn mk(neg: bool, n: &BigUint, d: &BigUint, base: u32, exp: i64) -> Val {
    let d = if d.is_zero() { BigUint::one() } else { d.clone() };
    Val { kind: K_FIN, neg: neg && !n.is_zero(), n: Nat::from_big(n), d: Nat::from_big(&d), base, exp: if n.is_zero() { 0 } else { exp }, k: Nat(vec![1]), prec: 0 }
}
fn special(kind: u8) -> Val {
    Val { kind, neg: kind == K_NINF || kind == K_NZERO, n: Nat(vec![]), d: Nat(vec![1]), base: 2, exp: 0, k: Nat(vec![1]), prec: 0 }
}

impl Val {
    fn sci(&self) -> Sci {
        let n = BigInt::from(self.n.big());
        let d = self.d.big();
        Sci { n: if self.neg { -n } else { n }, d: if d.is_zero() { BigUint::one() } else { d }, e: self.exp, base: self.base.max(2) as u64 }
    }
    fn show(&self) -> String {
        match self.kind {
            K_PINF => "+inf".into(),
            K_NINF => "-inf".into(),
            K_NAN => "NaN".into(),
            K_NZERO => "-0.0".into(),
            _ => {
                let s = self.sci();
                let k = self.k.big();
                if k.is_one() { s.show() } else { format!("{} [relaxed factor {}]", s.show(), show_u(&k)) }
            }
        }
    }
}

#[derive(Clone, Debug)]
enum V {
    Nan,
    Inf(bool),
    Fin(Sci),
}

fn value(v: &Val) -> V {
    match v.kind {
        K_PINF => V::Inf(false),
        K_NINF => V::Inf(true),
        K_NAN => V::Nan,
        K_NZERO => V::Fin(Sci::zero(2)),
        _ => V::Fin(v.sci()),
    }
}

// ---------------------------------------------------------------------------------------------
// exact oracle

fn log2c(base: u64) -> u64 {
    64 - (base - 1).leading_zeros() as u64
}

fn est_bits(s: &Sci) -> u64 {
    s.n.bits() + s.d.bits() + s.e.unsigned_abs().saturating_mul(log2c(s.base))
}

/// compare |a| with |b| exactly; None = cannot be decided within the size limits
fn cmp_abs(a: &Sci, b: &Sci) -> Option<Ordering> {
    let (az, bz) = (a.is_zero(), b.is_zero());
    if az || bz {
        return Some((!az as u8).cmp(&(!bz as u8)));
    }
    let (mut ea, mut eb) = (a.e, b.e);
    let (mut ba, mut bb) = (a.base, b.base);
    if ba.is_power_of_two() {
        ea *= ba.trailing_zeros() as i64;
        ba = 2;
    }
    if bb.is_power_of_two() {
        eb *= bb.trailing_zeros() as i64;
        bb = 2;
    }
    if ba == bb {
        // the common part of the exponents cancels
        let m = ea.min(eb);
        ea -= m;
        eb -= m;
    }
    let cost = a.n.bits() + a.d.bits() + b.n.bits() + b.d.bits() + ea.unsigned_abs().saturating_mul(log2c(ba)) + eb.unsigned_abs().saturating_mul(log2c(bb));
    if cost <= 2 * LIMIT {
        let pa = bpow(ba, ea.unsigned_abs());
        let pb = bpow(bb, eb.unsigned_abs());
        let mut l = a.n.magnitude() * &b.d;
        let mut r = b.n.magnitude() * &a.d;
        if ea >= 0 {
            l *= &pa
        } else {
            r *= &pa
        }
        if eb >= 0 {
            r *= &pb
        } else {
            l *= &pb
        }
        return Some(l.cmp(&r));
    }
    // rigorous enclosures of both magnitudes (256-bit relative accuracy, exponent unbounded)
    let w = 256;
    let xa = Ball::from_sci(&Sci { n: a.n.abs(), d: a.d.clone(), e: ea, base: ba }, w);
    let xb = Ball::from_sci(&Sci { n: b.n.abs(), d: b.d.clone(), e: eb, base: bb }, w);
    let diff = xa.sub(&xb, w);
    if diff.is_positive() {
        Some(Ordering::Greater)
    } else if diff.is_negative() {
        Some(Ordering::Less)
    } else {
        None
    }
}

/// Ok(None): incomparable (NaN); Err: the oracle cannot decide
fn cmp_v(a: &V, b: &V, abs: bool) -> Result<Option<Ordering>, ()> {
    match (a, b) {
        (V::Nan, _) | (_, V::Nan) => Ok(None),
        (V::Inf(x), V::Inf(y)) => Ok(Some(if abs { Ordering::Equal } else { (!*x as u8).cmp(&(!*y as u8)) })),
        (V::Inf(x), V::Fin(_)) => Ok(Some(if abs || !*x { Ordering::Greater } else { Ordering::Less })),
        (V::Fin(_), V::Inf(y)) => Ok(Some(if abs || !*y { Ordering::Less } else { Ordering::Greater })),
        (V::Fin(x), V::Fin(y)) => {
            if abs {
                return cmp_abs(x, y).map(Some).ok_or(());
            }
            let (sx, sy) = (x.signum(), y.signum());
            if sx != sy {
                return Ok(Some(sx.cmp(&sy)));
            }
            if sx == 0 {
                return Ok(Some(Ordering::Equal));
            }
            let m = cmp_abs(x, y).ok_or(())?;
            Ok(Some(if sx < 0 { m.reverse() } else { m }))
        }
    }
}

fn log2_big(x: &BigUint) -> f64 {
    let b = x.bits();
    if b == 0 {
        return f64::NEG_INFINITY;
    }
    if b <= 900 {
        x.to_f64().unwrap().log2()
    } else {
        (x >> (b - 64)).to_f64().unwrap().log2() + (b - 64) as f64
    }
}
/// log2 |v| to coverage-label accuracy
fn approx_log2(v: &V) -> f64 {
    match v {
        V::Nan => f64::NAN,
        V::Inf(_) => f64::INFINITY,
        V::Fin(s) => log2_big(s.n.magnitude()) - log2_big(&s.d) + s.e as f64 * (s.base as f64).log2(),
    }
}

/// exact rational value when it is small enough to materialise
fn small_q(s: &Sci) -> Option<BigRational> {
    if est_bits(s) > LIMIT {
        return None;
    }
    Some(s.to_rational())
}

/// expected num_hash input: sign · (n · d^-1 · base^exp mod 2^127−1); 0 when d ≡ 0
fn formula_hash(v: &V) -> i128 {
    match v {
        V::Nan => -1,
        V::Inf(_) => 0,
        V::Fin(s) => {
            let p = mersenne();
            let pm2 = &p - BigUint::from(2u8);
            // the value, not the spelling: cancel a factor 2^127−1 shared by n and d
            let (mut n, mut d) = (s.n.magnitude().clone(), s.d.clone());
            while !n.is_zero() && (&n % &p).is_zero() && (&d % &p).is_zero() {
                n /= &p;
                d /= &p;
            }
            let nn = n % &p;
            let dd = d % &p;
            if dd.is_zero() {
                return 0;
            }
            let mut r = nn * dd.modpow(&pm2, &p) % &p;
            let bb = BigUint::from(s.base) % &p;
            let be = bb.modpow(&BigUint::from(s.e.unsigned_abs()), &p);
            r = if s.e >= 0 { r * be % &p } else { r * be.modpow(&pm2, &p) % &p };
            let r = r.to_i128().unwrap();
            if s.n.is_negative() {
                -r
            } else {
                r
            }
        }
    }
}
fn std_hash_i128(x: i128) -> u64 {
    let mut h = DefaultHasher::new();
    x.hash(&mut h);
    h.finish()
}

// ---------------------------------------------------------------------------------------------
// materialised representations

type Fa = FBig<mode::Zero, 2>;
type Fb = FBig<mode::HalfAway, 10>;
type Fc = FBig<mode::HalfEven, 16>;
type Fd = FBig<mode::Down, 3>;
type Fe = FBig<mode::Up, 2>;

#[allow(dead_code)]
enum Rep {
    U(UBig),
    I(IBig),
    Fa(Fa),
    Fb(Fb),
    Fc(Fc),
    Fd(Fd),
    Fe(Fe),
    Ra(Repr<2>),
    Rb(Repr<10>),
    Rc(Repr<16>),
    Rd(Repr<3>),
    Q(RBig),
    X(Relaxed),
    U8(u8),
    U16(u16),
    U32(u32),
    U64(u64),
    U128(u128),
    Us(usize),
    I8(i8),
    I16(i16),
    I32(i32),
    I64(i64),
    I128(i128),
    Is(isize),
    F32(f32),
    F64(f64),
}

#[derive(Clone, Copy, PartialEq, Eq, Debug)]
enum Fam {
    UBig,
    IBig,
    FBig,
    FRepr,
    RBig,
    Relaxed,
    UPrim,
    IPrim,
    FPrim,
}
const FAMS: [Fam; 9] = [Fam::UBig, Fam::IBig, Fam::FBig, Fam::FRepr, Fam::RBig, Fam::Relaxed, Fam::UPrim, Fam::IPrim, Fam::FPrim];

impl Rep {
    fn name(&self) -> &'static str {
        match self {
            Rep::U(_) => "UBig",
            Rep::I(_) => "IBig",
            Rep::Fa(_) => "FBig<Zero,2>",
            Rep::Fb(_) => "FBig<HalfAway,10>",
            Rep::Fc(_) => "FBig<HalfEven,16>",
            Rep::Fd(_) => "FBig<Down,3>",
            Rep::Fe(_) => "FBig<Up,2>",
            Rep::Ra(_) => "Repr<2>",
            Rep::Rb(_) => "Repr<10>",
            Rep::Rc(_) => "Repr<16>",
            Rep::Rd(_) => "Repr<3>",
            Rep::Q(_) => "RBig",
            Rep::X(_) => "Relaxed",
            Rep::U8(_) => "u8",
            Rep::U16(_) => "u16",
            Rep::U32(_) => "u32",
            Rep::U64(_) => "u64",
            Rep::U128(_) => "u128",
            Rep::Us(_) => "usize",
            Rep::I8(_) => "i8",
            Rep::I16(_) => "i16",
            Rep::I32(_) => "i32",
            Rep::I64(_) => "i64",
            Rep::I128(_) => "i128",
            Rep::Is(_) => "isize",
            Rep::F32(_) => "f32",
            Rep::F64(_) => "f64",
        }
    }
    fn fam(&self) -> Fam {
        match self {
            Rep::U(_) => Fam::UBig,
            Rep::I(_) => Fam::IBig,
            Rep::Fa(_) | Rep::Fb(_) | Rep::Fc(_) | Rep::Fd(_) | Rep::Fe(_) => Fam::FBig,
            Rep::Ra(_) | Rep::Rb(_) | Rep::Rc(_) | Rep::Rd(_) => Fam::FRepr,
            Rep::Q(_) => Fam::RBig,
            Rep::X(_) => Fam::Relaxed,
            Rep::U8(_) | Rep::U16(_) | Rep::U32(_) | Rep::U64(_) | Rep::U128(_) | Rep::Us(_) => Fam::UPrim,
            Rep::I8(_) | Rep::I16(_) | Rep::I32(_) | Rep::I64(_) | Rep::I128(_) | Rep::Is(_) => Fam::IPrim,
            Rep::F32(_) | Rep::F64(_) => Fam::FPrim,
        }
    }
    fn is_float_family(&self) -> bool {
        matches!(self.fam(), Fam::FBig | Fam::FRepr)
    }
    fn is_ratio_family(&self) -> bool {
        matches!(self.fam(), Fam::RBig | Fam::Relaxed)
    }
    fn is_big_int(&self) -> bool {
        matches!(self.fam(), Fam::UBig | Fam::IBig)
    }
}

/// (m, e) with value = m · base^e, if such a pair exists (and is cheap to build)
fn float_parts(s: &Sci, q: Option<&BigRational>, base: u64) -> Option<(BigInt, i64)> {
    if s.is_zero() {
        return Some((BigInt::zero(), 0));
    }
    if s.d.is_one() {
        if s.base == base {
            return Some((s.n.clone(), s.e));
        }
        if s.base.is_power_of_two() && base.is_power_of_two() {
            // n · 2^(e·ls) = (n << r) · (2^lt)^q
            let e2 = s.e.checked_mul(s.base.trailing_zeros() as i64)?;
            let lt = base.trailing_zeros() as i64;
            let (qq, r) = (e2.div_euclid(lt), e2.rem_euclid(lt));
            return Some((&s.n << (r as u64), qq));
        }
    }
    let q = q?;
    let den = q.denom().magnitude().clone();
    // den must divide base^k: strip the primes of the base, k = max over primes of ceil(mult / mult in base)
    let primes: &[(u64, u64)] = match base {
        2 => &[(2, 1)],
        3 => &[(3, 1)],
        10 => &[(2, 1), (5, 1)],
        16 => &[(2, 4)],
        _ => unreachable!(),
    };
    let mut g = den.clone();
    let mut k = 0u64;
    for &(p, mult) in primes {
        let mut cnt = 0u64;
        if p == 2 {
            cnt = g.trailing_zeros().unwrap_or(0);
            g >>= cnt;
        } else {
            for chunk in [64u64, 8, 1] {
                let pc = bpow(p, chunk);
                loop {
                    let (qq, rr) = g.div_rem(&pc);
                    if !rr.is_zero() {
                        break;
                    }
                    g = qq;
                    cnt += chunk;
                }
            }
        }
        k = k.max((cnt + mult - 1) / mult);
    }
    if !g.is_one() || k > 40_000 {
        return None;
    }
    let m = q.numer() * BigInt::from(bpow(base, k)) / BigInt::from(den);
    Some((m, -(k as i64)))
}

/// IEEE bit fields for ±m·2^e (m > 0) if exactly representable: p mantissa bits (incl. hidden),
/// emin = exponent of the lowest subnormal bit, emax: values are < 2^emax
fn ieee_fields(m: &BigUint, e: i64, p: i64, emin: i64, emax: i64) -> Option<(u64, u64)> {
    // strip trailing zeros
    let tz = m.trailing_zeros().unwrap_or(0);
    let m = m >> tz;
    let e = e.checked_add(tz as i64)?;
    let b = m.bits() as i64;
    if b > p || e < emin {
        return None;
    }
    let top = b.checked_add(e)?;
    if top > emax {
        return None;
    }
    let m64 = m.to_u64()?;
    if top - 1 >= emin + p - 1 {
        let frac = (m64 << (p - b)) & ((1u64 << (p - 1)) - 1);
        let expf = (top - 1) - (emin + p - 1) + 1;
        Some((frac, expf as u64))
    } else {
        Some((m64 << (e - emin), 0))
    }
}

macro_rules! push_float {
    ($v:ident, $out:ident, $s:ident, $q:ident, $B:literal, $R:ident, [$($F:ident : $M:ty),*]) => {
        if let Some((m, e)) = float_parts(&$s, $q.as_ref(), $B) {
            if m.bits() <= LIMIT && e.unsigned_abs() < (1u64 << 40) {
                let repr = Repr::<$B>::new(n2i(&m), e as isize);
                let digits = repr.digits();
                let p = match $v.prec % 3 { 0 => 0, 1 => digits.max(1), _ => digits + 7 };
                $( $out.push(Rep::$F(FBig::<$M, $B>::from_repr(repr.clone(), Context::<$M>::new(p)))); )*
                $out.push(Rep::$R(repr));
            }
        }
    };
}

macro_rules! push_prims {
    ($out:ident, $n:expr, $($V:ident : $conv:ident),*) => { $( if let Some(x) = $n.$conv() { $out.push(Rep::$V(x)); } )* };
}

fn reps(v: &Val) -> Vec<Rep> {
    let mut out = Vec::new();
    match v.kind {
        K_PINF | K_NINF => {
            let neg = v.kind == K_NINF;
            macro_rules! inf {
                ($($F:ident : $T:ty),* ; $($R:ident : $B:literal),*) => {
                    $( out.push(Rep::$F(if neg { <$T>::NEG_INFINITY } else { <$T>::INFINITY })); )*
                    $( out.push(Rep::$R(if neg { Repr::<$B>::neg_infinity() } else { Repr::<$B>::infinity() })); )*
                };
            }
            inf!(Fa: Fa, Fb: Fb, Fc: Fc, Fd: Fd, Fe: Fe; Ra: 2, Rb: 10, Rc: 16, Rd: 3);
            out.push(Rep::F32(if neg { f32::NEG_INFINITY } else { f32::INFINITY }));
            out.push(Rep::F64(if neg { f64::NEG_INFINITY } else { f64::INFINITY }));
            return out;
        }
        K_NAN => {
            // a quiet and a signalling-pattern NaN, sign bit chosen by `neg`
            let s32 = if v.neg { 0x8000_0000u32 } else { 0 };
            let s64 = if v.neg { 1u64 << 63 } else { 0 };
            out.push(Rep::F32(f32::from_bits(0x7fc0_0000 | s32 | (v.exp as u32 & 0x3f_ffff))));
            out.push(Rep::F64(f64::from_bits(0x7ff8_0000_0000_0000 | s64 | (v.exp as u64 & 0xffff_ffff))));
            return out;
        }
        K_NZERO => {
            out.push(Rep::F32(-0.0f32));
            out.push(Rep::F64(-0.0f64));
        }
        _ => {}
    }
    let s = if v.kind == K_NZERO { Sci::zero(2) } else { v.sci() };
    let q = small_q(&s);
    push_float!(v, out, s, q, 2, Ra, [Fa: mode::Zero, Fe: mode::Up]);
    push_float!(v, out, s, q, 10, Rb, [Fb: mode::HalfAway]);
    push_float!(v, out, s, q, 16, Rc, [Fc: mode::HalfEven]);
    push_float!(v, out, s, q, 3, Rd, [Fd: mode::Down]);
    let q = match q {
        Some(q) => q,
        None => return out,
    };
    // rationals: RBig reduces, Relaxed keeps the odd part of the common factor k
    {
        let k = v.k.big();
        let k = if k.is_zero() { BigUint::one() } else { k };
        let (num, den) = s.num_den();
        if num.bits() + den.bits() + 2 * k.bits() <= LIMIT {
            let num = num * BigInt::from(k.clone());
            let den = den * k;
            out.push(Rep::Q(RBig::from_parts(n2i(&num), n2u(&den))));
            out.push(Rep::X(Relaxed::from_parts(n2i(&num), n2u(&den))));
        }
    }
    if q.is_integer() {
        let n = q.numer().clone();
        if !n.is_negative() {
            out.push(Rep::U(n2u(n.magnitude())));
        }
        out.push(Rep::I(n2i(&n)));
        push_prims!(out, n, U8: to_u8, U16: to_u16, U32: to_u32, U64: to_u64, U128: to_u128, Us: to_usize, I8: to_i8, I16: to_i16, I32: to_i32, I64: to_i64, I128: to_i128, Is: to_isize);
    }
    // binary floating point: denominator a power of two
    if v.kind != K_NZERO {
        let den = q.denom().magnitude();
        if den.is_one() || den.trailing_zeros() == Some(den.bits() - 1) {
            let e = -(den.bits() as i64 - 1);
            let m = q.numer().magnitude();
            let neg = q.is_negative();
            if m.is_zero() {
                out.push(Rep::F32(0.0));
                out.push(Rep::F64(0.0));
            } else {
                if let Some((frac, ex)) = ieee_fields(m, e, 24, -149, 128) {
                    let f = f32::from_bits(((neg as u32) << 31) | ((ex as u32) << 23) | frac as u32);
                    assert!(BigRational::from_float(f).as_ref() == Some(&q), "harness: f32 encoding of {q} gave {f:e}");
                    out.push(Rep::F32(f));
                }
                if let Some((frac, ex)) = ieee_fields(m, e, 53, -1074, 1024) {
                    let f = f64::from_bits(((neg as u64) << 63) | (ex << 52) | frac);
                    assert!(BigRational::from_float(f).as_ref() == Some(&q), "harness: f64 encoding of {q} gave {f:e}");
                    out.push(Rep::F64(f));
                }
            }
        }
    }
    out
}

// ---------------------------------------------------------------------------------------------
// observations

struct OrdObs {
    partial: Option<Ordering>,
    flags: [bool; 6],
    cmp: Result<Ordering, String>,
}

fn obs_ord<A: NumOrd<B>, B>(a: &A, b: &B) -> Result<OrdObs, String> {
    let (partial, flags) = catch(|| (a.num_partial_cmp(b), [a.num_eq(b), a.num_ne(b), a.num_lt(b), a.num_le(b), a.num_gt(b), a.num_ge(b)]))?;
    Ok(OrdObs { partial, flags, cmp: catch(|| a.num_cmp(b)) })
}
fn obs_abs<A: AbsOrd<B>, B>(a: &A, b: &B) -> Result<Ordering, String> {
    catch(|| a.abs_cmp(b))
}
fn obs_abs_eq<A: AbsEq<B>, B>(a: &A, b: &B) -> Result<bool, String> {
    catch(|| a.abs_eq(b))
}
/// (partial_cmp, ==, !=)
fn obs_std<A: PartialOrd<B> + PartialEq<B>, B>(a: &A, b: &B) -> Result<(Option<Ordering>, bool, bool), String> {
    catch(|| (a.partial_cmp(b), a == b, a != b))
}
fn obs_hash<A: NumHash>(a: &A) -> Result<u64, String> {
    catch(|| {
        let mut h = DefaultHasher::new();
        a.num_hash(&mut h);
        h.finish()
    })
}

macro_rules! one_dir {
    ($ra:ident, $rb:ident, $f:ident; [$($A:ident)*] x $bs:tt) => { $( one_dir!(@row $ra, $rb, $f; $A; $bs); )* };
    (@row $ra:ident, $rb:ident, $f:ident; $A:ident; [$($B:ident)*]) => { $(
        if let (Rep::$A(x), Rep::$B(y)) = ($ra, $rb) { return Some($f(x, y)); }
    )* };
}
macro_rules! both_dirs {
    ($ra:ident, $rb:ident, $f:ident; [$($A:ident)*] x $bs:tt) => { $( both_dirs!(@row $ra, $rb, $f; $A; $bs); )* };
    (@row $ra:ident, $rb:ident, $f:ident; $A:ident; [$($B:ident)*]) => { $(
        if let (Rep::$A(x), Rep::$B(y)) = ($ra, $rb) { return Some($f(x, y)); }
        if let (Rep::$B(x), Rep::$A(y)) = ($ra, $rb) { return Some($f(x, y)); }
    )* };
}
macro_rules! same_type {
    ($ra:ident, $rb:ident, $f:ident; $($A:ident)*) => { $(
        if let (Rep::$A(x), Rep::$A(y)) = ($ra, $rb) { return Some($f(x, y)); }
    )* };
}

/// every (Self, Rhs) with `impl NumOrd<Rhs> for Self` in dashu-int / dashu-float / dashu-ratio
fn dispatch_ord(ra: &Rep, rb: &Rep) -> Option<Result<OrdObs, String>> {
    // integer/src/third_party/num_order.rs
    one_dir!(ra, rb, obs_ord; [U I] x [U I]);
    both_dirs!(ra, rb, obs_ord; [U I] x [U8 U16 U32 U64 U128 Us I8 I16 I32 I64 I128 Is F32 F64]);
    // float/src/third_party/num_order.rs
    one_dir!(ra, rb, obs_ord; [Fa Fb Fc Fd Fe] x [Fa Fb Fc Fd Fe]);
    one_dir!(ra, rb, obs_ord; [Ra Rb Rc Rd] x [Ra Rb Rc Rd]);
    both_dirs!(ra, rb, obs_ord; [Fa Fb Fc Fd Fe Ra Rb Rc Rd] x [U I U8 U16 U32 U64 U128 Us I8 I16 I32 I64 I128 Is F32 F64]);
    // rational/src/third_party/num_order.rs
    one_dir!(ra, rb, obs_ord; [Q] x [X]);
    one_dir!(ra, rb, obs_ord; [X] x [Q]);
    both_dirs!(ra, rb, obs_ord; [Q X] x [U I U8 U16 U32 U64 U128 Us I8 I16 I32 I64 I128 Is F32 F64]);
    both_dirs!(ra, rb, obs_ord; [Q X] x [Fa Fb Fc Fd Fe]);
    None
}

/// every (Self, Rhs) with `impl AbsOrd<Rhs> for Self`
fn dispatch_abs(ra: &Rep, rb: &Rep) -> Option<Result<Ordering, String>> {
    // integer/src/cmp.rs
    one_dir!(ra, rb, obs_abs; [U I] x [U I]);
    // float/src/cmp.rs
    same_type!(ra, rb, obs_abs; Fa Fb Fc Fd Fe);
    both_dirs!(ra, rb, obs_abs; [Fa Fb Fc Fd Fe Ra Rb Rc Rd] x [U I]);
    // rational/src/cmp.rs
    one_dir!(ra, rb, obs_abs; [Q X] x [Q X]);
    both_dirs!(ra, rb, obs_abs; [Q X] x [U I]);
    both_dirs!(ra, rb, obs_abs; [Q X] x [Fa Fb Fc Fd Fe]);
    // base/src/sign.rs
    same_type!(ra, rb, obs_abs; I8 I16 I32 I64 I128 Is F32 F64);
    None
}

/// every (Self, Rhs) with `impl AbsEq<Rhs> for Self` (deprecated trait, still public)
fn dispatch_abs_eq(ra: &Rep, rb: &Rep) -> Option<Result<bool, String>> {
    one_dir!(ra, rb, obs_abs_eq; [U I] x [U I]);
    same_type!(ra, rb, obs_abs_eq; Q X I8 I16 I32 I64 I128 Is F32 F64);
    None
}

/// PartialOrd + PartialEq pairs
fn dispatch_std(ra: &Rep, rb: &Rep) -> Option<Result<(Option<Ordering>, bool, bool), String>> {
    same_type!(ra, rb, obs_std; U I Fa Fb Fc Fd Fe Ra Rb Rc Rd Q X);
    // different rounding modes, same base
    one_dir!(ra, rb, obs_std; [Fa] x [Fe]);
    one_dir!(ra, rb, obs_std; [Fe] x [Fa]);
    None
}

fn hash_of(r: &Rep) -> Result<u64, String> {
    macro_rules! h { ($($V:ident)*) => { match r { $( Rep::$V(x) => obs_hash(x), )* } } }
    h!(U I Fa Fb Fc Fd Fe Ra Rb Rc Rd Q X U8 U16 U32 U64 U128 Us I8 I16 I32 I64 I128 Is F32 F64)
}

// ---------------------------------------------------------------------------------------------
// thread CPU clock (only for the "returns promptly" guard of huge-exponent cases)

#[repr(C)]
struct Timespec {
    tv_sec: i64,
    tv_nsec: i64,
}
extern "C" {
    fn clock_gettime(clk: i32, ts: *mut Timespec) -> i32;
}
fn cpu_s() -> f64 {
    let mut t = Timespec { tv_sec: 0, tv_nsec: 0 };
    // CLOCK_THREAD_CPUTIME_ID = 3 on Linux
    unsafe { clock_gettime(3, &mut t) };
    t.tv_sec as f64 + t.tv_nsec as f64 * 1e-9
}

// ---------------------------------------------------------------------------------------------
// the oracle

fn ord_name(o: Option<Ordering>) -> &'static str {
    match o {
        None => "None",
        Some(Ordering::Less) => "Less",
        Some(Ordering::Equal) => "Equal",
        Some(Ordering::Greater) => "Greater",
    }
}

static PAIR_LABELS: std::sync::OnceLock<Vec<&'static str>> = std::sync::OnceLock::new();
fn pair_label(a: Fam, b: Fam) -> &'static str {
    let t = PAIR_LABELS.get_or_init(|| {
        let mut v = Vec::new();
        for x in FAMS {
            for y in FAMS {
                v.push(&*Box::leak(format!("pair:{x:?}×{y:?}").into_boxed_str()));
            }
        }
        v
    });
    let ix = |f: Fam| FAMS.iter().position(|g| *g == f).unwrap();
    t[ix(a) * FAMS.len() + ix(b)]
}

struct Site<'a> {
    /// "num_ord" | "abs_cmp" | "abs_eq" | "std" | "num_hash"
    tr: &'static str,
    ra: &'a Rep,
    rb: &'a Rep,
    va: &'a Val,
    vb: &'a Val,
    xa: &'a V,
    xb: &'a V,
}

fn is_zero_v(v: &V) -> bool {
    matches!(v, V::Fin(s) if s.is_zero())
}
fn is_neg_v(v: &V) -> bool {
    match v {
        V::Inf(n) => *n,
        V::Fin(s) => s.signum() < 0,
        V::Nan => false,
    }
}

/// a failing observation: known finding if it matches the predicate of an active entry, else violation
fn report(out: &mut Out, ctx: &Ctx, site: &Site, got: &str, want: &str) {
    let detail = || format!("{}: {}({}) vs {}({}): got {}, want {}", site.tr, site.ra.name(), site.va.show(), site.rb.name(), site.vb.show(), got, want);
    match known_class(site, got) {
        Some(id) => ctx.known_or_fail(out, id, detail),
        None => out.fail(detail()),
    }
}

/// positive finite and below 2^k
fn pos_below_pow2(v: &V, k: i64) -> bool {
    match v {
        V::Fin(s) if s.signum() > 0 => cmp_abs(s, &Sci::new(BigInt::one(), k, 2)) == Some(Ordering::Less),
        _ => false,
    }
}

/// Predicates of the known findings: call site (trait + type families) and input class, as narrow
/// as the root cause.  Anything outside stays a violation.
fn known_class(site: &Site, got: &str) -> Option<&'static str> {
    let (fa, fb) = (site.ra.fam(), site.rb.fam());
    // (float-family side, other side) of a mixed pair, whichever the direction
    let mixed = |p: fn(&Rep) -> bool, q: fn(&Rep) -> bool| -> Option<(&V, &V)> {
        if p(site.ra) && q(site.rb) {
            Some((site.xa, site.xb))
        } else if p(site.rb) && q(site.ra) {
            Some((site.xb, site.xa))
        } else {
            None
        }
    };
    let is_fprim = |r: &Rep| r.fam() == Fam::FPrim;
    let is_min = |r: &Rep| match r {
        Rep::I8(x) => *x == i8::MIN,
        Rep::I16(x) => *x == i16::MIN,
        Rep::I32(x) => *x == i32::MIN,
        Rep::I64(x) => *x == i64::MIN,
        Rep::I128(x) => *x == i128::MIN,
        Rep::Is(x) => *x == isize::MIN,
        _ => false,
    };
    match site.tr {
        // base/src/sign.rs impl_signed_for_int: `self.abs()` overflows for the minimum value (panic with
        // overflow checks, otherwise MIN stays negative and compares below everything)
        "abs_cmp" | "abs_eq" if fa == Fam::IPrim && fb == Fam::IPrim => {
            if is_min(site.ra) || is_min(site.rb) {
                return Some("C14/prim-abs-cmp-min");
            }
            None
        }
        "abs_cmp" => {
            // float/src/cmp.rs repr_cmp_ubig / repr_cmp_ibig, ABS = true: the exact step compares the
            // *signed* significand / integer, so the result is wrong only if an operand is negative
            if let Some((f, i)) = mixed(Rep::is_float_family, Rep::is_big_int) {
                if matches!(f, V::Fin(_)) && (is_neg_v(f) || is_neg_v(i)) {
                    // ... and the wrong answer is exactly the signed comparison float ? integer
                    // (mirrored when the integer is on the left)
                    if let Ok(Some(signed)) = cmp_v(f, i, false) {
                        let signed = if site.ra.is_float_family() { signed } else { signed.reverse() };
                        if got == ord_name(Some(signed)) {
                            return Some("C14/float-abs-cmp-int-signed");
                        }
                    }
                }
            }
            None
        }
        "num_ord" if !got.starts_with("panic") => {
            // integer/src/third_party/num_order.rs impl_num_ord_ibig_with_float step 2:
            // `-sign * Less` for an infinity of the same sign as the integer (zero counts as positive)
            if let Some((i, f)) = mixed(|r| r.fam() == Fam::IBig, is_fprim) {
                if let V::Inf(neg) = f {
                    if is_neg_v(i) == *neg {
                        return Some("C14/ibig-vs-inf-float-same-sign");
                    }
                }
            }
            // zero versus a small positive primitive float: each crate's float comparison treats a
            // float below 1/2 (below 1/4 in dashu-ratio) as smaller than "any" left operand
            if let Some((z, f)) = mixed(Rep::is_big_int, is_fprim) {
                if is_zero_v(z) && pos_below_pow2(f, -1) {
                    return Some("C14/int-zero-vs-small-float");
                }
            }
            if let Some((z, f)) = mixed(Rep::is_float_family, is_fprim) {
                if is_zero_v(z) && pos_below_pow2(f, -1) {
                    return Some("C14/float-zero-vs-small-float");
                }
            }
            if let Some((z, f)) = mixed(Rep::is_ratio_family, is_fprim) {
                if is_zero_v(z) && pos_below_pow2(f, -2) {
                    return Some("C14/ratio-zero-vs-small-float");
                }
            }
            None
        }
        "num_hash" => {
            // rational/src/third_party/num_order.rs: a Relaxed whose numerator and denominator share
            // the factor 2^127−1 is hashed as "denominator ≡ 0" although its value is an ordinary number
            let p = mersenne();
            let shared = |r: &Rep, v: &Val| {
                r.fam() == Fam::Relaxed && v.kind == K_FIN && !v.n.is_zero() && (v.n.big() * v.k.big() % &p).is_zero() && (v.d.big() * v.k.big() % &p).is_zero()
            };
            // the reduced denominator must not be ≡ 0 itself (then 0 is the agreed hash)
            let genuine = |v: &Val| {
                let q = BigRational::new(BigInt::from(v.n.big()), BigInt::from(v.d.big()));
                !(q.denom().magnitude() % &p).is_zero()
            };
            // site.ra is the representation that deviates from the formula hash
            if shared(site.ra, site.va) && genuine(site.va) {
                return Some("C14/relaxed-hash-common-factor-m127");
            }
            None
        }
        _ => None,
    }
}

fn run(c: &Case, ctx: &Ctx) -> Out {
    let mut out = Out::new();
    let (xa, xb) = (value(&c.a), value(&c.b));
    let ra = reps(&c.a);
    let rb = reps(&c.b);
    out.label(match c.a.kind {
        K_FIN => "a:finite",
        K_PINF | K_NINF => "a:infinite",
        K_NAN => "a:NaN",
        _ => "a:-0.0",
    });
    let want = cmp_v(&xa, &xb, false);
    let want_abs = cmp_v(&xa, &xb, true);
    let huge = |v: &Val| v.kind == K_FIN && v.exp.unsigned_abs().saturating_mul(log2c(v.base.max(2) as u64)) > LIMIT;
    let is_huge = huge(&c.a) || huge(&c.b);
    if is_huge {
        out.label("huge exponent (one side not materialisable as an integer)");
    }
    let (la, lb) = (approx_log2(&xa), approx_log2(&xb));
    let near = (la - lb).abs() < 2.0 || (la == lb);
    out.label(match want {
        Ok(Some(Ordering::Equal)) => "dist:equal",
        Ok(None) => "dist:incomparable (NaN)",
        Err(()) => "dist:oracle undecided",
        _ if near => "dist:|Δlog2| < 2",
        _ => "dist:far",
    });
    let (want, want_abs) = match (want, want_abs) {
        (Ok(w), Ok(wa)) => (w, wa),
        _ => {
            out.inconclusive("enclosures at 256 bits overlap and the operands are too large for exact cross multiplication");
            return out;
        }
    };
    if ra.is_empty() || rb.is_empty() {
        out.label("no representation (value too large for every type)");
        return out;
    }

    // ---- pair selection: all pairs when few, otherwise a case-determined sample
    let total = ra.len() * rb.len();
    // every probe of a near pair makes dashu build B^|e|: few probes when that is millions of bits
    let very_huge = |v: &Val| v.kind == K_FIN && v.exp.unsigned_abs().saturating_mul(log2c(v.base.max(2) as u64)) > 1_500_000 && !(v.base as u64).is_power_of_two();
    let maxp = if very_huge(&c.a) || very_huge(&c.b) { 4 } else if is_huge { 10 } else if ctx.thorough() { 96 } else { 64 };
    let picks: Vec<usize> = if total <= maxp { (0..total).collect() } else { (0..maxp).map(|i| (i * 7919 + c.salt as usize) % total).collect() };
    let t0 = cpu_s();
    let mut cross = false;
    for ix in picks {
        let (a, b) = (&ra[ix / rb.len()], &rb[ix % rb.len()]);
        let site = |tr: &'static str| Site { tr, ra: a, rb: b, va: &c.a, vb: &c.b, xa: &xa, xb: &xb };
        let mut any = false;
        if let Some(r) = dispatch_ord(a, b) {
            any = true;
            match r {
                Err(m) => report(&mut out, ctx, &site("num_ord"), &format!("panic {}", normalise(&m)), ord_name(want)),
                Ok(o) => {
                    if o.partial != want {
                        report(&mut out, ctx, &site("num_ord"), &format!("num_partial_cmp = {}", ord_name(o.partial)), ord_name(want));
                    } else {
                        let e = want;
                        let wf = [
                            e == Some(Ordering::Equal),
                            e != Some(Ordering::Equal),
                            e == Some(Ordering::Less),
                            matches!(e, Some(Ordering::Less | Ordering::Equal)),
                            e == Some(Ordering::Greater),
                            matches!(e, Some(Ordering::Greater | Ordering::Equal)),
                        ];
                        if o.flags != wf {
                            report(&mut out, ctx, &site("num_ord"), &format!("[num_eq,ne,lt,le,gt,ge] = {:?} (num_partial_cmp is right)", o.flags), &format!("{wf:?}"));
                        }
                        match (&o.cmp, e) {
                            (Ok(g), Some(w)) if *g == w => {}
                            (Err(_), None) => {} // documented: num_cmp panics on NaN
                            (g, _) => report(&mut out, ctx, &site("num_ord"), &format!("num_cmp = {:?}", g.as_ref().map_err(|m| normalise(m))), &format!("{} (panic for NaN)", ord_name(e))),
                        }
                    }
                }
            }
        }
        // AbsOrd / AbsEq are not defined for NaN (documented panic of the primitive impls)
        if want.is_some() {
            if let Some(r) = dispatch_abs(a, b) {
                any = true;
                match r {
                    Err(m) => report(&mut out, ctx, &site("abs_cmp"), &format!("panic {}", normalise(&m)), ord_name(want_abs)),
                    Ok(g) => {
                        if Some(g) != want_abs {
                            report(&mut out, ctx, &site("abs_cmp"), ord_name(Some(g)), ord_name(want_abs));
                        }
                    }
                }
            }
            if let Some(r) = dispatch_abs_eq(a, b) {
                any = true;
                let w = want_abs == Some(Ordering::Equal);
                match r {
                    Err(m) => report(&mut out, ctx, &site("abs_eq"), &format!("panic {}", normalise(&m)), &w.to_string()),
                    Ok(g) => {
                        if g != w {
                            report(&mut out, ctx, &site("abs_eq"), &g.to_string(), &w.to_string());
                        }
                    }
                }
            }
        }
        if let Some(r) = dispatch_std(a, b) {
            any = true;
            let weq = want == Some(Ordering::Equal);
            match r {
                Err(m) => report(&mut out, ctx, &site("std"), &format!("panic {}", normalise(&m)), ord_name(want)),
                Ok((p, eq, ne)) => {
                    if p != want || eq != weq || ne == weq {
                        report(&mut out, ctx, &site("std"), &format!("partial_cmp = {}, == {}, != {}", ord_name(p), eq, ne), &format!("{}, == {}", ord_name(want), weq));
                    }
                }
            }
        }
        if any {
            out.label(pair_label(a.fam(), b.fam()));
            if a.name() != b.name() {
                cross = true;
            }
        }
    }
    let dt = cpu_s() - t0;
    if is_huge && dt > 2.0 {
        out.inconclusive(format!("huge-exponent comparison took {dt:.1} s of CPU (C16 owns hangs)"));
    }
    out.nontrivial(cross && near && want.is_some());

    // ---- hashing: all representations of one value agree; equal values agree across a and b
    let t0 = cpu_s();
    let mut hashes: Vec<(bool, &Rep, u64)> = Vec::new();
    for (side, list) in [(false, &ra), (true, &rb)] {
        for r in list.iter() {
            match hash_of(r) {
                Ok(h) => hashes.push((side, r, h)),
                Err(m) => {
                    let v = if side { &c.b } else { &c.a };
                    let site = Site { tr: "num_hash", ra: r, rb: r, va: v, vb: v, xa: if side { &xb } else { &xa }, xb: if side { &xb } else { &xa } };
                    report(&mut out, ctx, &site, &format!("panic {}", normalise(&m)), "a hash");
                }
            }
        }
    }
    let equal = want == Some(Ordering::Equal);
    let fa = std_hash_i128(formula_hash(&xa));
    let fb = std_hash_i128(formula_hash(&xb));
    for i in 0..hashes.len() {
        for j in (i + 1)..hashes.len() {
            let (si, ri, hi) = &hashes[i];
            let (sj, rj, hj) = &hashes[j];
            if (si == sj || equal) && hi != hj {
                let (vi, vj) = (if *si { &c.b } else { &c.a }, if *sj { &c.b } else { &c.a });
                let (xi, xj) = (if *si { &xb } else { &xa }, if *sj { &xb } else { &xa });
                let fi = if *si { fb } else { fa };
                let fj = if *sj { fb } else { fa };
                let blame = match (*hi == fi, *hj == fj) {
                    (true, false) => format!("{} deviates from hash(n·d⁻¹·Bᵉ mod 2^127−1)", rj.name()),
                    (false, true) => format!("{} deviates from hash(n·d⁻¹·Bᵉ mod 2^127−1)", ri.name()),
                    (false, false) => "both deviate from the formula".to_string(),
                    (true, true) => "formula hashes differ (harness?)".to_string(),
                };
                // put the deviating representation first
                let site = if *hi == fi { Site { tr: "num_hash", ra: rj, rb: ri, va: vj, vb: vi, xa: xj, xb: xi } } else { Site { tr: "num_hash", ra: ri, rb: rj, va: vi, vb: vj, xa: xi, xb: xj } };
                report(&mut out, ctx, &site, &format!("different hashes for numerically equal values; {blame}"), "equal hashes");
            }
        }
    }
    if hashes.iter().any(|(_, r, _)| !matches!(r.fam(), Fam::UPrim | Fam::IPrim | Fam::FPrim)) && hashes.len() >= 2 {
        out.label("hash: >= 2 representations compared");
    }
    let dt = cpu_s() - t0;
    if is_huge && dt > 2.0 {
        out.inconclusive(format!("huge-exponent hash took {dt:.1} s of CPU"));
    }
    out
}

// ---------------------------------------------------------------------------------------------
// generators

fn rnd_bits(r: &mut SplitMix, bits: u64) -> BigUint {
    if bits == 0 {
        return BigUint::zero();
    }
    let words = ((bits + 63) / 64) as usize;
    let mut v: Vec<u64> = (0..words).map(|_| r.next()).collect();
    let top = bits - 64 * (words as u64 - 1);
    if top < 64 {
        v[words - 1] &= (1u64 << top) - 1;
    }
    v[words - 1] |= 1u64 << (top - 1);
    words_to_big(&v)
}
/// exactly `bits` bits, from a pattern family
fn pat_bits(r: &mut SplitMix, bits: u64) -> BigUint {
    if bits == 0 {
        return BigUint::zero();
    }
    let one = BigUint::one();
    match r.below(7) {
        0 => &one << (bits - 1),
        1 => (&one << bits) - &one,
        2 if bits >= 2 => (&one << (bits - 1)) + &one,
        3 if bits >= 3 => (&one << bits) - BigUint::from(1 + r.below(3)),
        _ => rnd_bits(r, bits),
    }
}

const CL_SMALL_INT: u8 = 0;
const CL_BIG_INT: u8 = 1;
const CL_DYADIC: u8 = 2;
const CL_DECIMAL: u8 = 3;
const CL_RATIONAL: u8 = 4;
const CL_HASHMOD: u8 = 5;
const CL_HUGE: u8 = 6;
const CL_SPECIAL: u8 = 7;

fn gen_val(class: u8, size: u8, r: &mut SplitMix) -> Val {
    let one = BigUint::one();
    let neg = r.below(3) == 0;
    let mut v = match class {
        CL_SMALL_INT => {
            let n = if r.below(2) == 0 {
                let ks = [7u32, 8, 15, 16, 31, 32, 63, 64, 127, 128];
                let k = ks[r.below(ks.len() as u64) as usize];
                let p = &one << k;
                match r.below(8) {
                    0 => BigUint::zero(),
                    1 => BigUint::from(r.below(11)),
                    2 | 3 => &p - &one,
                    4 | 5 => p,
                    _ => &p + &one,
                }
            } else {
                let bits = [r.below(9), r.below(17), r.below(33), r.below(65), r.below(130)][(size as usize).min(4)];
                rnd_bits(r, bits)
            };
            mk(neg, &n, &one, 2, 0)
        }
        CL_BIG_INT => {
            let words = [2usize, 3, 4, 9, 40, 300][(size as usize).min(5)] + r.below(2) as usize;
            let n = Nat(gen::expand(words, r.below(gen::N_PATTERNS as u64) as u8, r.next())).big();
            mk(neg, &n, &one, 2, 0)
        }
        CL_DYADIC => {
            let mb = [1u64, 8, 23, 24, 25, 52, 53, 54, 64, 113, 200, 1 + r.below(64)];
            let bits = mb[r.below(mb.len() as u64) as usize];
            let n = pat_bits(r, bits);
            // position of the top bit of the value
            let tops: [(i64, i64); 9] = [(-1080, -1068), (-1030, -1016), (-155, -143), (-132, -120), (-70, 70), (-8, 8), (120, 132), (1016, 1030), (-3000, 3000)];
            let (lo, hi) = tops[[4usize, 5, 4, 2, 3, 6, 0, 1, 7, 8, 5, 4][r.below(12) as usize]];
            let top = lo + r.below((hi - lo + 1) as u64) as i64;
            let e = top - bits as i64;
            if r.below(6) == 0 {
                // spelled in base 16: n·2^(e mod 4) · 16^(e div 4)
                mk(neg, &(n << (e.rem_euclid(4) as u64)), &one, 16, e.div_euclid(4))
            } else {
                mk(neg, &n, &one, 2, e)
            }
        }
        CL_DECIMAL => {
            let base = if r.below(6) == 0 { 3u32 } else { 10 };
            let k = [1u64, 2, 3, 8, 17, 40][(size as usize).min(5)] + r.below(3);
            let hi = bpow(base as u64, k);
            let n = match r.below(5) {
                0 => &hi - &one,
                1 => bpow(base as u64, k - 1) + &one,
                2 => BigUint::from(1 + r.below(base as u64 - 1)),
                _ => rnd_bits(r, hi.bits() + 8) % &hi,
            };
            let es: [(i64, i64); 5] = [(-6, 6), (-45, 45), (-330, -300), (295, 312), (-25, 0)];
            let (lo, hi) = es[[0usize, 0, 1, 1, 4, 2, 3, 4][r.below(8) as usize]];
            mk(neg, &n, &one, base, lo + r.below((hi - lo + 1) as u64) as i64)
        }
        CL_RATIONAL => {
            let words = [0usize, 1, 1, 2, 3, 12][(size as usize).min(5)];
            let n = if words == 0 { BigUint::from(r.below(20)) } else { Nat(gen::expand(words, r.below(gen::N_PATTERNS as u64) as u8, r.next())).big() };
            let d = match r.below(9) {
                0 => one.clone(),
                1 => &one << r.below(70),
                2 => bpow(10, r.below(25)),
                3 => bpow(3, r.below(40)),
                4 => &n + &one,
                5 if n > one => &n - &one,
                6 => (&n << 1u8) + &one,
                _ => Nat(gen::expand(words.max(1), r.below(gen::N_PATTERNS as u64) as u8, r.next())).big(),
            };
            let mut v = mk(neg, &n, &d, 2, 0);
            if r.below(5) == 0 {
                v.base = 10;
                v.exp = r.below(7) as i64 - 3;
            }
            let ks: [BigUint; 6] = [one.clone(), one.clone(), BigUint::from(3u8), BigUint::from(35u8), (&one << 64u8) + BigUint::from(13u8), BigUint::from(6u8)];
            v.k = Nat::from_big(&ks[r.below(6) as usize]);
            v
        }
        CL_HASHMOD => {
            let p = mersenne();
            let blk = |r: &mut SplitMix| -> BigUint {
                let c = BigUint::from(r.next() | 1);
                match r.below(14) {
                    0 => p.clone(),
                    1 => &p - &one,
                    2 => &p + &one,
                    3 => &p * 2u8,
                    4 => &p * 2u8 + &one,
                    5 => &p * 2u8 - &one,
                    6 => &p * &c,
                    7 => &p * &c + &one,
                    8 => &p * &c - &one,
                    9 => &p * &p,
                    10 => &p << r.below(130),
                    11 => BigUint::from(1 + r.below(9)),
                    12 => &p * &p * &c + BigUint::from(r.below(3)),
                    _ => {
                        let nb = 1 + r.below(260);
                        rnd_bits(r, nb)
                    }
                }
            };
            let n = blk(r);
            let d = match r.below(4) {
                0 | 1 => one.clone(),
                2 => BigUint::from(1 + r.below(9)) << r.below(4),
                _ => blk(r),
            };
            let bases = [2u32, 2, 10, 16, 3];
            let base = bases[r.below(5) as usize];
            let es = [0i64, 0, 1, -1, -2, 126, 127, 128, -126, -127, -128, 254, -254, 381, 1270, -1270, 127 * 3 + 1];
            let exp = es[r.below(es.len() as u64) as usize];
            let mut v = mk(neg, &n, &d, base, exp);
            let ks: [BigUint; 5] = [one.clone(), one.clone(), p.clone(), BigUint::from(3u8), &p * 6u8];
            v.k = Nat::from_big(&ks[r.below(5) as usize]);
            v
        }
        CL_HUGE => {
            // 10^±10^6 and 2^±10^7 as the design asks; cheaper exponents more often (every probe of a
            // near pair makes dashu materialise B^|e|)
            let (base, e0): (u32, i64) = [(10, 1_000_000), (2, 10_000_000), (2, 10_000_000), (16, 2_500_000), (3, 600_000), (10, 100_000), (10, 100_000), (10, 30_000), (3, 60_000), (2, 1_000_000), (16, 300_000), (10, 300_000)][r.below(12) as usize];
            let e = (e0 + r.below(200) as i64 - 100) * if r.below(2) == 0 { 1 } else { -1 };
            let n = match r.below(6) {
                0 => one.clone(),
                1 => BigUint::from(1 + r.below(99)),
                2 => BigUint::from(r.next() | 1),
                3 => {
                    let nb = 65 + r.below(64);
                    rnd_bits(r, nb)
                }
                4 => mersenne() * BigUint::from(1 + r.below(5)),
                _ => Nat(gen::expand([3usize, 8, 40][(size as usize) % 3], r.below(gen::N_PATTERNS as u64) as u8, r.next())).big(),
            };
            mk(neg, &n, &one, base, e)
        }
        _ => {
            let mut v = special([K_PINF, K_NINF, K_NAN, K_NZERO][r.below(4) as usize]);
            if v.kind == K_NAN {
                v.neg = r.below(2) == 0;
                v.exp = (r.next() & 0xffff_ffff) as i64;
            }
            v
        }
    };
    v.prec = r.below(3) as u8;
    v
}

const REL_NAMES: [&str; 13] = [
    "rel:identical",
    "rel:equal, respelled",
    "rel:n+1",
    "rel:n-1",
    "rel:(nK+1)/(dK)",
    "rel:(nK-1)/(dK)",
    "rel:negated",
    "rel:independent",
    "rel:double/half",
    "rel:integer part",
    "rel:truncated to 24/53 bits",
    "rel:other base, log2 within ~3",
    "rel:independent, other class",
];

/// b derived from a; `c` is an independent value used when the relation does not apply
fn relate(a: &Val, rel: u8, r: &mut SplitMix, c: Val) -> (Val, u8) {
    if a.kind != K_FIN {
        return match rel {
            0 | 1 => (a.clone(), 0),
            6 if a.kind == K_PINF => (special(K_NINF), 6),
            6 if a.kind == K_NINF => (special(K_PINF), 6),
            _ => (c, 7),
        };
    }
    let one = BigUint::one();
    let (n, d) = (a.n.big(), a.d.big());
    let base = a.base as u64;
    let s = a.sci();
    let mut b = match rel {
        0 => a.clone(),
        1 => {
            let mut b = a.clone();
            match r.below(4) {
                0 if !n.is_zero() => {
                    // n·B^j at exponent − j
                    let j = 1 + r.below(3);
                    b.n = Nat::from_big(&(&n * bpow(base, j)));
                    b.exp -= j as i64;
                }
                1 => {
                    // unreduced fraction
                    let k = BigUint::from(2 + r.below(50));
                    b.n = Nat::from_big(&(&n * &k));
                    b.d = Nat::from_big(&(&d * &k));
                }
                2 => {
                    let ks: [BigUint; 4] = [BigUint::from(3u8), mersenne(), BigUint::from(10u8), mersenne() * 3u8];
                    b.k = Nat::from_big(&ks[r.below(4) as usize]);
                }
                _ => {
                    // fold a small exponent into the fraction (other spelling, base 2)
                    if a.exp.unsigned_abs() <= 300 {
                        let (nn, dd) = s.num_den();
                        b = mk(a.neg, nn.magnitude(), &dd, 2, 0);
                        b.k = a.k.clone();
                    }
                }
            }
            b
        }
        2 => mk(a.neg, &(&n + &one), &d, a.base, a.exp),
        3 => {
            if n.is_zero() {
                mk(true, &one, &d, a.base, a.exp)
            } else {
                mk(a.neg, &(&n - &one), &d, a.base, a.exp)
            }
        }
        4 | 5 => {
            let ks: [BigUint; 7] = [BigUint::from(2u8), BigUint::from(3u8), BigUint::from(10u8), &one << 40u8, &one << 64u8, mersenne(), BigUint::from(r.next() | 1)];
            let k = &ks[r.below(7) as usize];
            let nk = &n * k;
            let nn = if rel == 4 || nk.is_zero() { nk + &one } else { nk - &one };
            mk(a.neg, &nn, &(&d * k), a.base, a.exp)
        }
        6 => {
            let mut b = a.clone();
            b.neg = !a.neg && !n.is_zero();
            b
        }
        8 => {
            if r.below(2) == 0 {
                mk(a.neg, &(&n << 1u8), &d, a.base, a.exp)
            } else {
                mk(a.neg, &n, &(&d << 1u8), a.base, a.exp)
            }
        }
        9 => match small_q(&s) {
            Some(q) => {
                let t = q.trunc().to_integer();
                let t = match r.below(3) {
                    0 => t,
                    1 => t + BigInt::one(),
                    _ => t - BigInt::one(),
                };
                mk(t.is_negative(), t.magnitude(), &one, 2, 0)
            }
            None => return (c, 7),
        },
        10 => match small_q(&s) {
            Some(q) if !q.is_zero() => {
                let p: i64 = if r.below(2) == 0 { 24 } else { 53 };
                let (qn, qd) = (q.numer().magnitude().clone(), q.denom().magnitude().clone());
                // t = floor(log2 |q|)
                let mut t = qn.bits() as i64 - qd.bits() as i64;
                let ge = |t: i64| if t >= 0 { qn >= (&qd << (t as u64)) } else { (&qn << ((-t) as u64)) >= qd };
                if !ge(t) {
                    t -= 1;
                }
                let sh = p - 1 - t;
                let m = if sh >= 0 { (&qn << (sh as u64)) / &qd } else { &qn / (&qd << ((-sh) as u64)) };
                let m = m + BigUint::from(r.below(2));
                mk(a.neg, &m, &one, 2, -sh)
            }
            _ => return (c, 7),
        },
        11 => {
            // a value in another base whose log2 is within a few units of a's
            let la = approx_log2(&V::Fin(s.clone()));
            if !la.is_finite() {
                return (c, 7);
            }
            // beyond ~4·10^6 bits only the power-of-two bases (a shift) are affordable for dashu
            let bases = [2u32, 16, 10, 3];
            let nb = bases[r.below(if la.abs() > 4.0e6 { 2 } else { 4 }) as usize];
            let m = match r.below(3) {
                0 => one.clone(),
                1 => BigUint::from(r.next() | 1),
                _ => {
                    let nb = 1 + r.below(120);
                    rnd_bits(r, nb)
                }
            };
            let lm = log2_big(&m);
            let e = ((la - lm) / (nb as f64).log2()).round() as i64 + r.below(3) as i64 - 1;
            mk(a.neg, &m, &one, nb, e)
        }
        _ => return (c, if rel == 12 { 12 } else { 7 }),
    };
    b.prec = r.below(3) as u8;
    (b, rel)
}

fn case_strategy(class: u8, other_classes: &'static [u8]) -> impl Strategy<Value = Case> {
    // (size, seed a, relation, seed b, salt); smaller sizes and the identical relation first
    (0u8..6, any::<u64>(), 0u8..26, any::<u64>(), any::<u32>()).prop_map(move |(size, sa, relsel, sb, salt)| {
        let mut r = SplitMix(sa);
        let a = gen_val(class, size, &mut r);
        let mut r2 = SplitMix(sb);
        // relation weights: each derived relation twice, independent (same / other class) once each
        let rel = [0u8, 1, 2, 3, 4, 5, 6, 8, 9, 10, 11, 2, 3, 4, 5, 1, 10, 11, 9, 7, 7, 12, 12, 12, 6, 8][relsel as usize];
        let c_class = if rel == 12 { other_classes[r2.below(other_classes.len() as u64) as usize] } else { class };
        let c = gen_val(c_class, size, &mut r2);
        let (b, rel) = relate(&a, rel, &mut r2, c);
        // either order: the interesting operand is not always on the left
        if salt & 1 == 0 {
            Case { a, b, rel, salt }
        } else {
            Case { a: b, b: a, rel, salt }
        }
    })
}

fn run_labelled(c: &Case, ctx: &Ctx) -> Out {
    let mut out = run(c, ctx);
    out.label(REL_NAMES[(c.rel as usize).min(REL_NAMES.len() - 1)]);
    out
}

fn main() {
    let mut ck = Check::new(
        "C14",
        "pairs of exact values ±(n/d)·B^e (B in 2,3,10,16) or ±inf/NaN/−0.0, each materialised in every type that holds it exactly (UBig, IBig, FBig<_,2|10|16|3>, float Repr, RBig, Relaxed with a non-reduced common factor, u8..u128/usize, i8..i128/isize, f32, f64); b is derived from a: identical, equal but respelled, n±1 (one ulp), (nK±1)/(dK), negated, doubled/halved, integer part ±1, truncated to 24/53 bits (+1 ulp), another base with log2 within ~3, independent; classes: primitive-boundary integers, big integers, dyadic values around the f32/f64 normal/subnormal/overflow edges, decimals and base-3 values, rationals, values built from the hash modulus 2^127−1, exponents ±10^6 (decimal) / ±10^7 (binary), specials. Every implemented (Self,Rhs) of NumOrd (all 8 methods), AbsOrd, AbsEq, PartialOrd/PartialEq is probed (<= 64 sampled pairs per case) against exact cross multiplication, or 256-bit ball enclosures when an exponent is huge; NumHash of all representations of one value, and of equal values, must agree (sub hash_any_exponent: floats n·B^e with e over the whole isize range — hash without panic, FBig = Repr, base 16 = base 2 where 4e fits). Non-trivial: a probed pair has different types and |log2|a| − log2|b|| < 2 (or both zero); distinct by case digest.",
    );
    ck.assume("dv::ball (rigorous enclosures) for the huge-exponent comparisons; num-order 1.2 NumHash of the primitive types as the reference hash of primitives");
    const ALL: &[u8] = &[CL_SMALL_INT, CL_BIG_INT, CL_DYADIC, CL_DECIMAL, CL_RATIONAL, CL_HASHMOD, CL_SPECIAL];
    const WITH_HUGE: &[u8] = &[CL_SMALL_INT, CL_BIG_INT, CL_DYADIC, CL_DECIMAL, CL_RATIONAL, CL_HASHMOD, CL_SPECIAL, CL_HUGE];
    ck.sub("small_int", (22_000, 660_000), || case_strategy(CL_SMALL_INT, ALL), run_labelled);
    ck.sub("big_int", (10_000, 300_000), || case_strategy(CL_BIG_INT, ALL), run_labelled);
    ck.sub("dyadic", (22_000, 660_000), || case_strategy(CL_DYADIC, ALL), run_labelled);
    ck.sub("decimal", (14_000, 420_000), || case_strategy(CL_DECIMAL, ALL), run_labelled);
    ck.sub("rational", (14_000, 420_000), || case_strategy(CL_RATIONAL, ALL), run_labelled);
    ck.sub("hash_modulus", (12_000, 360_000), || case_strategy(CL_HASHMOD, ALL), run_labelled);
    ck.sub("huge_exp", (3_000, 90_000), || case_strategy(CL_HUGE, WITH_HUGE), run_labelled);
    ck.sub("specials", (5_000, 150_000), || case_strategy(CL_SPECIAL, WITH_HUGE), run_labelled);
    // hashing alone, with exponents over the whole isize range (no other type holds such a value,
    // and a comparison would have to materialise B^|e|): the hash is computed without a panic, FBig
    // and its Repr agree, the same value spelled in base 2 and in base 16 (e·4 within isize) agrees
    ck.sub(
        "hash_any_exponent",
        (6_000, 180_000),
        || {
            (0u8..4, 0u8..8, any::<u64>(), any::<u64>(), any::<bool>()).prop_map(|(bsel, esel, es, ns, neg)| {
                let base = [2u32, 16, 10, 3][bsel as usize];
                let mag: u64 = match esel {
                    0 => es >> 1,                                         // anywhere
                    1 => (1u64 << (20 + es % 43)) + (es >> 58),           // 2^k + small
                    2 => (1u64 << (20 + es % 43)) - 1 - (es >> 60),       // 2^k − small
                    3 => i64::MAX as u64 - (es >> 56),                    // top of the range
                    4 => (i64::MAX as u64) / [1u64, 2, 3, 4, 5, 8][(es % 6) as usize] + (es >> 61), // overflow thresholds of e·log2 B
                    5 => 127 * (es >> 8) % (i64::MAX as u64),             // multiples of the order of 2 mod 2^127−1
                    6 => es % 100_000,
                    _ => (es >> 1) | 1 << 62,
                };
                let mag = mag.min(i64::MAX as u64) as i64;
                // both ends of the range included (isize::MIN now and then: |e| does not fit isize)
                let e = if es & 1 == 0 { mag } else if esel == 3 && es >> 56 == 0 { i64::MIN } else { -mag };
                let n = match ns % 4 {
                    0 => 1,
                    1 => 1 + (ns >> 2) % 99,
                    2 => (ns >> 2) | 1,
                    _ => 3,
                };
                // the significand must not be a multiple of the base (normal form)
                let n = if n % base as u64 == 0 { n + 1 } else { n };
                (base, n, e, neg)
            })
        },
        |c: &(u32, u64, i64, bool), _ctx: &Ctx| {
            let mut out = Out::new();
            let (base, n, e, neg) = *c;
            out.nontrivial(true);
            out.label(match base {
                2 => "hash-exp: base 2",
                16 => "hash-exp: base 16",
                10 => "hash-exp: base 10",
                _ => "hash-exp: base 3",
            });
            out.label(match e.unsigned_abs() {
                0..=0xf_ffff => "hash-exp: |e| < 2^20",
                0x10_0000..=0x1fff_ffff_ffff_ffff => "hash-exp: 2^20 <= |e| < 2^61",
                _ => "hash-exp: |e| >= 2^61",
            });
            let sig = if neg { -IBig::from(n) } else { IBig::from(n) };
            macro_rules! go {
                ($B:literal) => {{
                    let r = Repr::<$B>::new(sig.clone(), e as isize);
                    let f = FBig::<mode::Zero, $B>::from_repr(r.clone(), Context::new(0));
                    (obs_hash(&r), obs_hash(&f))
                }};
            }
            let (hr, hf) = match base {
                2 => go!(2),
                16 => go!(16),
                10 => go!(10),
                _ => go!(3),
            };
            let what = format!("{}{n}·{base}^{e}", if neg { "-" } else { "" });
            match (&hr, &hf) {
                (Ok(a), Ok(b)) => out.check(a == b, || format!("num_hash of {what}: Repr and FBig disagree")),
                (Err(m), _) | (_, Err(m)) => out.fail(format!("num_hash of {what} panicked: {}", normalise(m))),
            }
            // 16^e = 2^(4e)
            if base == 16 && e.checked_mul(4).is_some() {
                let r2 = Repr::<2>::new(sig.clone(), (4 * e) as isize);
                match (obs_hash(&r2), &hr) {
                    (Ok(a), Ok(b)) => out.check(a == *b, || format!("num_hash of {what} differs from that of the equal base-2 number {n}·2^{}", 4 * e)),
                    (Err(m), _) => out.fail(format!("num_hash of {n}·2^{} panicked: {}", 4 * e, normalise(&m))),
                    _ => {}
                }
                out.label("hash-exp: base 16 against the equal base-2 number");
            }
            out
        },
    );
    ck.finish();
}
