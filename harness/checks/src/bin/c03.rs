//! C03 — float arithmetic honours the rounding contract of its mode (exact integer oracle).
use dashu_float::round::mode;
use dashu_float::{Context, FBig};
use dashu_int::Word;
use dv::fl::*;
use dv::gen::pick;
use dv::*;
use num_bigint::{BigInt, BigUint};
use num_traits::{One, Signed, Zero};
use proptest::prelude::*;
use serde::{Deserialize, Serialize};

#[derive(Debug, Clone, Hash, Serialize, Deserialize)]
struct ArithCase {
    p: u32,
    a: Fl,
    b: Fl,
    op: u8,
}

const OPS: [&str; 7] = ["add", "sub", "mul", "div", "sqr", "cubic", "inv"];

fn precision() -> BoxedStrategy<u32> {
    prop_oneof![
        3 => Just(1u32),
        3 => Just(2u32),
        2 => Just(3u32),
        6 => 4u32..=10,
        4 => 11u32..=40,
        1 => Just(64u32),
        1 => 65u32..=130,
    ]
    .boxed()
}

/// (k digits <= p, pattern, seed, negative, exponent)
fn operand(base: u64, p: u32, ksel: u16, pat: u8, seed: u64, neg: bool, exp: i64) -> Fl {
    let ks = [p as u64, p as u64, (p as u64).saturating_sub(1).max(1), 1, 1 + seed % p as u64, (p as u64 + 1) / 2];
    let k = pick(&ks, ksel);
    let m = sig_pattern(base, k, pat, seed);
    let n = if neg { -BigInt::from(m) } else { BigInt::from(m) };
    fl_from(&n, exp)
}

fn arith_case(base: u64) -> impl Strategy<Value = ArithCase> {
    (
        precision(),
        (any::<u16>(), 0u8..9, any::<u64>(), any::<bool>(), prop_oneof![4 => -6i64..=6, 2 => -40i64..=40, 1 => -400i64..=400]),
        (any::<u16>(), 0u8..9, any::<u64>(), any::<bool>()),
        0u8..14, // relation
        any::<u16>(), // gap selector
        0u8..7,
    )
        .prop_map(move |(p, (ka, pa, sa, na, ea), (kb, pb, sb, nb), rel, gsel, op)| {
            let a = operand(base, p, ka, pa, sa, na, ea);
            let pw = |k: u64| bpow(base, k);
            let pu = p as u64;
            let b = match rel {
                // cancellation: b = -(a ± j), same exponent
                0 | 1 => {
                    let j = BigUint::from(sb % 4);
                    let am = a.sig.mag.big();
                    let mut bmag = if sb & 8 == 0 || am < j { &am + &j } else { &am - &j };
                    if bmag >= pw(pu) {
                        bmag = &am - &j.min(am.clone());
                    }
                    // opposite sign of a
                    let bm = if a.sig.neg { -BigInt::from(bmag) } else { BigInt::from(bmag) };
                    fl_from(&-bm, a.exp)
                }
                // near-cancellation one digit lower: b = -(a·B ± j) at exponent ea-1, if it fits p digits
                2 => {
                    let am = a.sig.big();
                    let bm = &am * BigInt::from(base) + BigInt::from(sb % 3) - BigInt::one();
                    if bm.magnitude() < &pw(pu) {
                        fl_from(&-bm, a.exp - 1)
                    } else {
                        operand(base, p, kb, pb, sb, nb, a.exp)
                    }
                }
                // exact quotient: a' = b·q is built below by swapping roles (a stays, b divides it)
                3 => {
                    // b = a divisor of a's significand when possible: b = small number, a unchanged
                    let d = 1 + sb % (if p >= 2 { base * base - 1 } else { base - 1 });
                    fl_from(&BigInt::from(if nb { -(d as i64) } else { d as i64 }), (sb % 5) as i64 - 2)
                }
                4 => a.clone(),
                // b is (almost) exactly half a unit in the last place of the sum: its leading digit sits
                // at the first discarded position, the digits below are zero up to a final +-j
                // (a tie, or just above / below it however long b is)
                12 | 13 if !a.sig.is_zero() => {
                    let da = a.digits(base) as i64;
                    let ks = [1u64, 2, (pu + 1) / 2, pu, pu.min(25 + sb % 8), 1 + sb % pu, pu.saturating_sub(1).max(1)];
                    let k = pick(&ks, kb).max(1).min(pu);
                    let half = if base % 2 == 0 { BigUint::from(base / 2) * pw(k - 1) } else { (pw(k) - 1u8) / 2u8 };
                    let js: [i64; 7] = [0, 1, -1, 1, 2, -2, 0];
                    let j = pick(&js, (sb >> 8) as u16);
                    let mut m = if j >= 0 { &half + BigUint::from(j as u64) } else if half > BigUint::from((-j) as u64) { &half - BigUint::from((-j) as u64) } else { half.clone() };
                    if m.is_zero() || m >= pw(k) {
                        m = half.clone().max(BigUint::one());
                    }
                    let ds: [i64; 6] = [0, 0, 0, -1, 1, 0];
                    let delta = pick(&ds, (sb >> 16) as u16);
                    let eb = a.exp + da - pu as i64 - k as i64 + delta;
                    let bm = BigInt::from(m);
                    fl_from(&if nb { -bm } else { bm }, eb)
                }
                // independent with an exponent gap class relative to the precision
                _ => {
                    let gaps: [i64; 14] = [0, 1, 2, (pu as i64) / 2, pu as i64 - 1, pu as i64, pu as i64 + 1, pu as i64 + 2, 2 * pu as i64, 2 * pu as i64 + 1, 3 * pu as i64 + 5, 10 * pu as i64, 30, 1];
                    let g = pick(&gaps, gsel);
                    let dir = if sb & 1 == 0 { 1 } else { -1 };
                    operand(base, p, kb, pb, sb, nb, a.exp + dir * g)
                }
            };
            ArithCase { p, a, b, op }
        })
}

fn gap_label(c: &ArithCase, base: u64) -> &'static str {
    if c.a.sig.is_zero() || c.b.sig.is_zero() {
        return "align:operand zero";
    }
    // position of the top digit of the smaller-exponent operand relative to the low digit of the other
    let (hi, lo) = if c.a.exp >= c.b.exp { (&c.a, &c.b) } else { (&c.b, &c.a) };
    let ediff = (hi.exp - lo.exp) as u64;
    let p = c.p as u64;
    let hd = hi.digits(base);
    let ld = lo.digits(base);
    if ediff == 0 {
        "align:same exponent"
    } else if ld > ediff {
        if hd + ediff <= p { "align:overlap, fits precision" } else { "align:overlap, low part sticky" }
    } else if ediff + hd <= p + 1 {
        "align:adjacent (no overlap, within precision)"
    } else if ediff - ld >= p + 2 {
        "align:far below precision"
    } else {
        "align:just below precision"
    }
}

fn run<R: ModeTag, const B: Word>(c: &ArithCase, _ctx: &Ctx) -> Out {
    let mut out = Out::new();
    let base = B as u64;
    let p = c.p as u64;
    let mode_ = R::MODE;
    let (sa, sb) = (c.a.sci(base), c.b.sci(base));
    let (ra, rb) = (c.a.repr::<B>(), c.b.repr::<B>());
    let cx = Context::<R>::new(c.p as usize);
    let op = OPS[c.op as usize % OPS.len()];
    out.label(match op {
        "add" => "op:add",
        "sub" => "op:sub",
        "mul" => "op:mul",
        "div" => "op:div",
        "sqr" => "op:sqr",
        "cubic" => "op:cubic",
        _ => "op:inv",
    });
    out.label(match c.p {
        1 => "p:1",
        2 => "p:2",
        3 => "p:3",
        4..=10 => "p:4-10",
        11..=40 => "p:11-40",
        _ => "p:>40",
    });
    let truth = match op {
        "add" => Truth::Val(sa.add(&sb)),
        "sub" => Truth::Val(sa.sub(&sb)),
        "mul" => Truth::Val(sa.mul(&sb)),
        "div" => {
            if sb.is_zero() {
                return out; // division by zero is C16's business
            }
            Truth::Val(sa.div(&sb))
        }
        "sqr" => Truth::Val(sa.mul(&sa)),
        "cubic" => Truth::Val(sa.mul(&sa).mul(&sa)),
        _ => {
            if sa.is_zero() {
                return out;
            }
            Truth::Val(Sci::new(BigInt::one(), 0, base).div(&sa))
        }
    };
    if op == "add" || op == "sub" {
        out.label(gap_label(c, base));
        let eff_sub = (c.a.sig.neg != c.b.sig.neg) == (op == "add");
        out.label(if eff_sub { "effective subtraction" } else { "effective addition" });
        if truth.is_zero() {
            out.label("cancellation to zero");
        }
    }
    let got = catch(|| match op {
        "add" => cx.add(&ra, &rb),
        "sub" => cx.sub(&ra, &rb),
        "mul" => cx.mul(&ra, &rb),
        "div" => cx.div(&ra, &rb),
        "sqr" => cx.sqr(&ra),
        "cubic" => cx.cubic(&ra),
        _ => cx.inv(&ra),
    });
    let mut results: Vec<(String, Res)> = Vec::new();
    match got {
        Err(m) => out.fail(format!("Context::{op} (base {base}, {}, p={p}) panicked: {}", mode_.name(), normalise(&m))),
        Ok(r) => match res_of(&r) {
            Err(e) => out.fail(format!("Context::{op}: {e}")),
            Ok(res) => {
                if res.precision != c.p as usize {
                    out.fail(format!("Context::{op}: result carries precision {} instead of the context's {}", res.precision, c.p));
                }
                results.push((format!("Context::{op}"), res));
            }
        },
    }
    // the FBig operators built on the context methods (both operands at precision p)
    if matches!(op, "add" | "sub" | "mul" | "div") {
        // one operand may carry a smaller precision (its own digit count): the operators work at
        // the larger of the two, like Context::max
        let lower = c.b.exp.rem_euclid(3);
        let pa = if lower == 1 { (c.a.digits(base) as usize).max(1).min(c.p as usize) } else { c.p as usize };
        let pb = if lower == 2 { (c.b.digits(base) as usize).max(1).min(c.p as usize) } else { c.p as usize };
        if pa != pb {
            out.label("operator: operands of different precision");
        }
        let fa: FBig<R, B> = c.a.fbig(pa);
        let fb: FBig<R, B> = c.b.fbig(pb);
        let form = c.a.exp.rem_euclid(4);
        let r = catch(|| match (op, form) {
            ("add", 0) => fa.clone() + fb.clone(),
            ("add", 1) => fa.clone() + &fb,
            ("add", 2) => &fa + fb.clone(),
            ("add", _) => &fa + &fb,
            ("sub", 0) => fa.clone() - fb.clone(),
            ("sub", 1) => fa.clone() - &fb,
            ("sub", 2) => &fa - fb.clone(),
            ("sub", _) => &fa - &fb,
            ("mul", 0) => fa.clone() * fb.clone(),
            ("mul", 1) => fa.clone() * &fb,
            ("mul", 2) => &fa * fb.clone(),
            ("mul", _) => &fa * &fb,
            (_, 0) => fa.clone() / fb.clone(),
            (_, 1) => fa.clone() / &fb,
            (_, 2) => &fa / fb.clone(),
            (_, _) => &fa / &fb,
        });
        match r {
            Err(m) => out.fail(format!("FBig operator {op} (base {base}, {}, p={p}) panicked: {}", mode_.name(), normalise(&m))),
            Ok(f) => match Sci::from_repr(f.repr()) {
                None => out.fail(format!("FBig operator {op}: infinite result")),
                Some(val) => {
                    if f.precision() != c.p as usize {
                        out.fail(format!("FBig operator {op} (form {form}): operands of precision {pa} and {pb} give a result of precision {} instead of {}", f.precision(), c.p));
                    }
                    // operators do not expose the flag: judge the value with the flag-independent clauses
                    let flag_free = Res { sig: val.n.magnitude().clone(), val, flag: None, precision: f.precision() };
                    results.push((format!("FBig operator {op}"), flag_free));
                }
            },
        }
    }
    let mut inexact = false;
    for (what, res) in &results {
        let mut broken = contract(&truth, res, p, mode_);
        if what.starts_with("FBig operator") {
            broken.retain(|b| b.clause != "exact-flag" && b.clause != "flag-direction");
        }
        if res.flag.is_some() {
            inexact = true;
        }
        if res.sig >= bpow(base, p) {
            out.label("result has p+1 digits");
        }
        if !broken.is_empty() {
            report(&mut out, what, &truth, res, p, mode_, &broken);
        }
    }
    out.nontrivial(inexact || c.a.exp != c.b.exp);
    if inexact {
        out.label("inexact");
    } else {
        out.label("exact");
    }
    out
}

#[derive(Debug, Clone, Hash, Serialize, Deserialize)]
struct SqrtCase {
    p: u32,
    x: Fl,
}

fn sqrt_case(base: u64) -> impl Strategy<Value = SqrtCase> {
    (precision(), 0u8..8, 0u8..9, any::<u64>(), any::<u16>(), -41i64..=41).prop_map(move |(p, class, pat, seed, ksel, e)| {
        let pu = p as u64;
        let half_k = [(pu + 1) / 2, pu, pu + 1, 1, (pu / 2).max(1)];
        let k = pick(&half_k, ksel).max(1);
        let m = sig_pattern(base, k, pat, seed);
        let sig: BigUint = match class {
            // perfect squares, and neighbours
            0 => &m * &m,
            1 => &m * &m + BigUint::one(),
            2 => {
                let s = &m * &m;
                if s.is_one() { s } else { s - BigUint::one() }
            }
            // square of a half-way value: (m·B + B/2)^2  -> the (k+1)-digit root is a tie
            3 if base % 2 == 0 => {
                let t = &m * BigUint::from(base) + BigUint::from(base / 2);
                &t * &t
            }
            4 if base % 2 == 0 => {
                let t = &m * BigUint::from(base) + BigUint::from(base / 2);
                &t * &t + BigUint::one()
            }
            _ => sig_pattern(base, pick(&[pu, pu, 1, (pu + 1) / 2, 2.min(pu)], ksel).max(1), pat, seed),
        };
        // operands must fit the precision: drop to p digits if the construction overflowed
        let sig = if sig >= bpow(base, pu) { sig_pattern(base, pu, pat, seed) } else { sig };
        SqrtCase { p, x: fl_from(&BigInt::from(sig), e) }
    })
}

fn run_sqrt<R: ModeTag, const B: Word>(c: &SqrtCase, _ctx: &Ctx) -> Out {
    let mut out = Out::new();
    let base = B as u64;
    let p = c.p as u64;
    let sx = c.x.sci(base);
    let truth = Truth::sqrt_of(&sx);
    out.label(match &truth {
        Truth::Val(_) => "sqrt:rational root",
        Truth::Sqrt(_) => "sqrt:irrational root",
    });
    out.label(if c.x.exp.rem_euclid(2) == 0 { "sqrt:even exponent" } else { "sqrt:odd exponent" });
    out.label(if c.x.digits(base) % 2 == 0 { "sqrt:even digit count" } else { "sqrt:odd digit count" });
    let cx = Context::<R>::new(c.p as usize);
    let rx = c.x.repr::<B>();
    let mut inexact = false;
    match catch(|| cx.sqrt(&rx)) {
        Err(m) => out.fail(format!("Context::sqrt (base {base}, {}, p={p}) panicked: {}", R::MODE.name(), normalise(&m))),
        Ok(r) => match res_of(&r) {
            Err(e) => out.fail(format!("Context::sqrt: {e}")),
            Ok(res) => {
                inexact = res.flag.is_some();
                let broken = contract(&truth, &res, p, R::MODE);
                if !broken.is_empty() {
                    report(&mut out, "Context::sqrt", &truth, &res, p, R::MODE, &broken);
                }
            }
        },
    }
    // FBig::sqrt at the value's own precision
    let f: FBig<R, B> = c.x.fbig(c.p as usize);
    match catch(|| dashu_base::SquareRoot::sqrt(&f)) {
        Err(m) => out.fail(format!("FBig::sqrt panicked: {}", normalise(&m))),
        Ok(g) => match Sci::from_repr(g.repr()) {
            None => out.fail("FBig::sqrt: infinite result".to_string()),
            Some(val) => {
                let res = Res { sig: val.n.magnitude().clone(), val, flag: None, precision: g.precision() };
                let mut broken = contract(&truth, &res, p, R::MODE);
                broken.retain(|b| b.clause != "exact-flag" && b.clause != "flag-direction");
                if !broken.is_empty() {
                    report(&mut out, "FBig::sqrt", &truth, &res, p, R::MODE, &broken);
                }
            }
        },
    }
    out.nontrivial(inexact);
    out.label(if inexact { "inexact" } else { "exact" });
    out
}

macro_rules! subs {
    ($ck:ident, $($b:literal $bn:literal),*) => {$(
        subs!(@m $ck, $b, $bn, Zero, Away, Up, Down, HalfEven, HalfAway);
    )*};
    (@m $ck:ident, $b:literal, $bn:literal, $($m:ident),*) => {$(
        $ck.sub(concat!("arith_b", $bn, "_", stringify!($m)), (12_000, 300_000), || arith_case($b), run::<mode::$m, $b>);
        $ck.sub(concat!("sqrt_b", $bn, "_", stringify!($m)), (3_000, 80_000), || sqrt_case($b), run_sqrt::<mode::$m, $b>);
    )*};
}

fn main() {
    let mut ck = Check::new(
        "C03",
        "Context add/sub/mul/div/sqr/cubic/inv/sqrt and the FBig operators, for 6 rounding modes × bases {2,3,10,16,36}; operands with <= p digits from digit patterns (1 0..0, B-1 repeated, 1 0..0 1, half, B^k-small, trailing zeros, random), precisions 1..130, exponent gaps relative to p (0,1,p/2,p-1,p,p+1,p+2,2p,2p+1,3p+5,10p), cancellation b=-(a±j), near-cancellation one digit lower, exact quotients, sqrt radicands m^2, m^2±1, (mB+B/2)^2 (ties); oracle: six-clause rounding contract evaluated exactly with integer arithmetic (Exact⇔equal, <= p+1 digits, representable⇒exact, |err|<1ulp (<=1/2 for nearest), side per mode, AddOne/SubOne direction). Non-trivial: inexact result or operands with different exponents; distinct by case digest.",
    );
    subs!(ck, 2 "2", 3 "3", 10 "10", 16 "16", 36 "36");
    ck.finish();
}
