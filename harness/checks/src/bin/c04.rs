//! C04 — rational arithmetic is exact and RBig stays in lowest terms.
//!
//! Stateful: a case is eight seed rationals plus a `Vec<Op>`; an interpreter keeps a pool of four
//! `RBig` and four `Relaxed` values next to a model pool of `num_rational::BigRational`, feeds every
//! result back into a slot and re-checks the whole pool after every step.  A stateless sub runs
//! every ownership / assign / mixed-integer form once on single operand pairs.
use dashu_base::{Abs, DivEuclid, DivRemEuclid, Inverse, RemEuclid, Sign};
use dashu_int::{IBig, UBig};
use dashu_ratio::{RBig, Relaxed};
use dv::gen;
use dv::*;
use num_bigint::BigInt;
use num_integer::Integer;
use num_rational::BigRational;
use num_traits::{One, Signed, Zero};
use proptest::collection::vec;
use proptest::prelude::*;
use proptest::strategy::Union;
use serde::{Deserialize, Serialize};

type Q = BigRational;

/// numerators / denominators are kept below this size (decided from the model, see `bound_of`)
const CAP_BITS: u64 = 60 * 64;
const POOL: usize = 4;

// ------------------------------------------------------------------------------------------------
// case data
// ------------------------------------------------------------------------------------------------

#[derive(Debug, Clone, Hash, Serialize, Deserialize)]
struct Rat {
    num: Int,
    den: Nat,
}

#[derive(Debug, Clone, Copy, PartialEq, Eq, Hash, Serialize, Deserialize)]
enum Kind {
    // pool ⊕ pool (same pool)
    Add,
    Sub,
    Mul,
    Div,
    Rem,
    RemEuclid,
    DivEuclid,
    DivRemEuclid,
    // pool ⊕ integer (UBig / IBig, either side)
    AddInt,
    SubInt,
    MulInt,
    DivInt,
    // unary
    Pow,
    Sqr,
    Cubic,
    Inv,
    Neg,
    Abs,
    Signum,
    MulSign,
    Fract,
    SplitAtPoint,
    CloneFrom,
    // construction
    FromParts,
    FromPartsSigned,
    FromPartsConst,
    FromInt,
    FromF64,
    /// text `n/d` (not reduced) through from_str / from_str_radix / from_str_with_radix_prefix
    Parse,
    /// the same text through the serde decoder (json)
    Decode,
    // moves between the pools
    Relax,
    Canonicalize,
    AsRelaxed,
}
use Kind::*;

/// weighted table (repetition = weight); simplest first, `gen::pick` maps monotonically
const KIND_TABLE: &[Kind] = &[
    Add, Add, Add, Add, Sub, Sub, Sub, Sub, Mul, Mul, Mul, Mul, Div, Div, Div, Rem, Rem, RemEuclid, DivEuclid, DivRemEuclid, AddInt, AddInt, SubInt, SubInt,
    MulInt, MulInt, DivInt, DivInt, Pow, Sqr, Cubic, Inv, Inv, Neg, Abs, Signum, MulSign, Fract, SplitAtPoint, CloneFrom, FromParts, FromParts, Parse, Parse, Decode,
    FromPartsSigned, FromPartsConst, FromInt, FromF64, Relax, Relax, Canonicalize, Canonicalize, AsRelaxed,
];

fn kind_label(k: Kind) -> &'static str {
    match k {
        Add => "op:add",
        Sub => "op:sub",
        Mul => "op:mul",
        Div => "op:div",
        Rem => "op:rem",
        RemEuclid => "op:rem_euclid",
        DivEuclid => "op:div_euclid",
        DivRemEuclid => "op:div_rem_euclid",
        AddInt => "op:add int",
        SubInt => "op:sub int",
        MulInt => "op:mul int",
        DivInt => "op:div int",
        Pow => "op:pow",
        Sqr => "op:sqr",
        Cubic => "op:cubic",
        Inv => "op:inv",
        Neg => "op:neg",
        Abs => "op:abs",
        Signum => "op:signum",
        MulSign => "op:mul Sign",
        Fract => "op:fract",
        SplitAtPoint => "op:split_at_point",
        CloneFrom => "op:clone_from",
        FromParts => "op:from_parts",
        Parse => "op:parse text",
        Decode => "op:serde decode",
        FromPartsSigned => "op:from_parts_signed",
        FromPartsConst => "op:from_parts_const",
        FromInt => "op:From<int>",
        FromF64 => "op:TryFrom<f64>",
        Relax => "op:relax",
        Canonicalize => "op:canonicalize",
        AsRelaxed => "op:as_relaxed",
    }
}

/// One step.  Plain data; every index is taken modulo its range by the interpreter so that any
/// subsequence (shrinking drops steps) and any hand-edited replay stays valid.
#[derive(Debug, Clone, Hash, Serialize, Deserialize)]
struct Op {
    kind: Kind,
    /// which pool the step works in (false: RBig, true: Relaxed); ignored by relax/canonicalize
    relaxed: bool,
    dst: u8,
    a: u8,
    b: u8,
    /// ownership / assign form selector
    form: u8,
    /// integer operand (int ops, numerator of from_parts*, source of From<int> / f64 bits)
    int: Int,
    /// second integer (denominator of from_parts*)
    nat: Nat,
    /// how the integer operand is tied to the current value of slot `a` (shared factors)
    derive: u8,
    /// integer operand type: UBig (|int|) instead of IBig
    unsigned: bool,
    /// integer on the left-hand side
    int_left: bool,
    /// sign of the denominator (from_parts_signed) / the Sign factor (mul Sign)
    flag: bool,
    exp: u8,
}

#[derive(Debug, Clone, Hash, Serialize, Deserialize)]
struct SeqCase {
    seeds: Vec<Rat>,
    ops: Vec<Op>,
}

#[derive(Debug, Clone, Hash, Serialize, Deserialize)]
struct PairCase {
    x: Rat,
    y: Rat,
    i: Int,
}

// ------------------------------------------------------------------------------------------------
// generators
// ------------------------------------------------------------------------------------------------

/// sizes mostly 1–3 words, sometimes 10–40; small values and powers of two are frequent so that
/// independently drawn operands share factors by chance as well
fn small_nat() -> BoxedStrategy<Nat> {
    Union::new_weighted(vec![
        (3, (0u64..24).prop_map(|w| Nat(vec![w])).boxed()),
        (2, (0u32..64).prop_map(|k| Nat(vec![1u64 << k])).boxed()),
        (5, nat_len(1, 1)),
        (4, nat_len(2, 3)),
        (1, nat_len(4, 9)),
        (1, nat_len(10, 40)),
    ])
    .boxed()
}

/// like `gen::nat_len`, but the expansion seed does not shrink: a sequence case holds ~70 of these
/// and the engine's 400 shrink iterations are better spent on dropping steps, shortening lengths
/// and simplifying patterns than on bisecting 64-bit seeds
fn nat_len(lo: usize, hi: usize) -> BoxedStrategy<Nat> {
    (lo..=hi, 0u8..gen::N_PATTERNS, any::<u64>().no_shrink()).prop_map(|(n, p, s)| Nat(gen::expand(n, p, s))).boxed()
}

fn small_int() -> BoxedStrategy<Int> {
    (any::<bool>(), small_nat()).prop_map(|(neg, mag)| Int { neg: neg && !mag.is_zero(), mag }).boxed()
}

fn nz(n: BigInt) -> BigInt {
    if n.is_zero() {
        BigInt::one()
    } else {
        n
    }
}

fn mul_capped(a: &BigInt, f: &BigInt) -> BigInt {
    let p = a * f;
    if p.bits() > CAP_BITS {
        a.clone()
    } else {
        p
    }
}

/// (a, b, shape, factor selectors) -> num/den sharing factors by construction
type RawRat = (Int, Nat, u8, u8, u8);
fn raw_rat() -> impl Strategy<Value = RawRat> {
    (small_int(), small_nat(), 0u8..12, 0u8..4, 0u8..4)
}
fn build_rat(raw: &RawRat, f: &[BigInt]) -> Rat {
    let (a, b, shape, gs, hs) = raw;
    let one = BigInt::one();
    let g = f.get(*gs as usize).unwrap_or(&one);
    let h = f.get(*hs as usize).unwrap_or(&one);
    let a = a.big();
    let b = nz(BigInt::from(b.big()));
    let (num, den) = match shape {
        0 => (BigInt::zero(), mul_capped(&b, g)),                 // zero with a non-trivial denominator
        1 => (mul_capped(&a, g), g.clone()),                      // integer value written as (a·g)/g
        2 => (a.clone(), BigInt::one() << (b.iter_u64_digits().next().unwrap_or(0) % 130) as usize), // a / 2^k
        3 => (a.clone(), BigInt::one()),                          // denominator 1
        4 | 5 => (a.clone(), b.clone()),                          // independent
        6 | 7 => (mul_capped(&a, g), mul_capped(&b, g)),          // (a·g)/(b·g)
        8 => (mul_capped(&a, g), mul_capped(&b, h)),              // factors shared with *other* values
        9 => (mul_capped(&mul_capped(&a, g), h), mul_capped(&b, g)),
        10 => (mul_capped(&a, g), mul_capped(&mul_capped(&b, g), h)),
        _ => (mul_capped(&a, &b), b.clone()),                     // integer value a written as (a·b)/b
    };
    Rat { num: Int::from_big(&num), den: Nat::from_big(nz(den).magnitude()) }
}

type RawOp = ((u16, bool, u8, u8, u8, u8), (Int, Nat, u8, bool, bool, bool, u8, u8));
fn raw_op() -> impl Strategy<Value = RawOp> {
    (
        (0u16..=u16::MAX, any::<bool>(), 0u8..4, 0u8..4, 0u8..4, 0u8..12),
        (small_int(), small_nat(), 0u8..10, any::<bool>(), any::<bool>(), any::<bool>(), 0u8..6, 0u8..6),
    )
}
fn build_op(raw: &RawOp, f: &[BigInt]) -> Op {
    let ((k, relaxed, dst, a, b, form), (int, nat, derive, unsigned, int_left, flag, exp, fs)) = raw;
    let kind = gen::pick(KIND_TABLE, *k);
    // numerator and denominator of from_parts* (and the integer operand of the mixed forms) are
    // multiplied by one of the sequence-wide factors
    let (int, nat) = match f.get(*fs as usize) {
        Some(g) => (Int::from_big(&mul_capped(&int.big(), g)), Nat::from_big(mul_capped(&BigInt::from(nat.big()), g).magnitude())),
        None => (int.clone(), nat.clone()),
    };
    let mut op = Op { kind, relaxed: *relaxed, dst: *dst, a: *a, b: *b, form: *form, int, nat, derive: *derive, unsigned: *unsigned, int_left: *int_left, flag: *flag, exp: *exp };
    // fields the kind does not read are cleared: replay files stay readable and digests distinct
    let int_op = matches!(kind, AddInt | SubInt | MulInt | DivInt);
    if !(int_op || matches!(kind, FromParts | FromPartsSigned | FromPartsConst | FromInt | FromF64 | Parse | Decode)) {
        op.int = Int::default();
    }
    if !matches!(kind, FromParts | FromPartsSigned | FromPartsConst | Parse | Decode) {
        op.nat = Nat::default();
    }
    if !int_op {
        op.derive = 0;
        op.int_left = false;
    }
    if !(int_op || kind == FromInt) {
        op.unsigned = false;
    }
    if !matches!(kind, FromPartsSigned | MulSign) {
        op.flag = false;
    }
    if kind != Pow {
        op.exp = 0;
    }
    if !matches!(kind, Add | Sub | Mul | Div | Rem | RemEuclid | DivEuclid | DivRemEuclid | CloneFrom) {
        op.b = 0;
    }
    if matches!(kind, Relax | Canonicalize | AsRelaxed) {
        op.relaxed = false;
    }
    op
}

fn factors(raw: &[Nat]) -> Vec<BigInt> {
    raw.iter().map(|n| nz(BigInt::from(n.big()))).collect()
}

fn seq_case(max_steps: usize) -> impl Strategy<Value = SeqCase> {
    // the step list comes first: the engine's shrink budget (400 iterations) is then spent on
    // dropping steps before it is spent on simplifying seeds and factors
    (vec(raw_op(), 0..=max_steps), vec(raw_rat(), 2 * POOL), vec(small_nat(), 3)).prop_map(|(ops, seeds, f)| {
        let f = factors(&f);
        SeqCase { seeds: seeds.iter().map(|r| build_rat(r, &f)).collect(), ops: ops.iter().map(|o| build_op(o, &f)).collect() }
    })
}

fn pair_case() -> impl Strategy<Value = PairCase> {
    (raw_rat(), raw_rat(), small_int(), 0u8..8, vec(small_nat(), 3)).prop_map(|(x, y, i, isel, f)| {
        let f = factors(&f);
        let x = build_rat(&x, &f);
        let y = build_rat(&y, &f);
        let i = match isel {
            0 => Int::default(),
            1 => Int::from_big(&mul_capped(&i.big(), &f[0])),
            2 => Int::from_big(&mul_capped(&i.big(), &BigInt::from(x.den.big()))),
            3 => Int::from_big(&mul_capped(&i.big(), &x.num.big())),
            _ => i,
        };
        PairCase { x, y, i }
    })
}

// ------------------------------------------------------------------------------------------------
// reading dashu values (raw words only) and the per-value oracle
// ------------------------------------------------------------------------------------------------

enum Prod<T> {
    V(T),
    QV(IBig, T),
    Q(IBig),
    Nothing,
}

/// resolved step, ready to execute
struct R {
    kind: Kind,
    form: u8,
    a: usize,
    b: usize,
    iv: IBig,
    uv: UBig,
    unsigned: bool,
    int_left: bool,
    exp: usize,
    sign: Sign,
    pn: IBig,
    pd: UBig,
    pds: IBig,
    cn: u128,
    cd: u128,
    f: f64,
}

trait Rt: Clone + Sized {
    const NAME: &'static str;
    /// RBig: lowest terms are promised
    const CANON: bool;
    fn num(&self) -> BigInt;
    fn den(&self) -> BigInt;
    fn zero_flag(&self) -> bool;
    fn one_flag(&self) -> bool;
    fn int_flag(&self) -> Option<bool>;
    fn neg_flag(&self) -> bool;
    /// (Display text, the value parsed back from it as parts, Debug text)
    fn text(&self) -> (String, Option<(BigInt, BigInt)>, String);
    fn from_int(q: IBig) -> Self;
    fn exec(pool: &[Self; POOL], r: &R) -> Prod<Self>;
}

macro_rules! bin_form {
    ($x:ident, $y:ident, $f:expr, $op:tt, $opa:tt) => {
        match $f % 6 {
            0 => $x.clone() $op $y.clone(),
            1 => $x.clone() $op $y,
            2 => $x $op $y.clone(),
            3 => $x $op $y,
            4 => { let mut t = $x.clone(); t $opa $y.clone(); t }
            _ => { let mut t = $x.clone(); t $opa $y; t }
        }
    };
}
macro_rules! tr_form {
    ($x:ident, $y:ident, $f:expr, $tr:ident :: $m:ident) => {
        match $f % 4 {
            0 => $tr::$m($x.clone(), $y.clone()),
            1 => $tr::$m($x.clone(), $y),
            2 => $tr::$m($x, $y.clone()),
            _ => $tr::$m($x, $y),
        }
    };
}
macro_rules! int_form {
    ($x:ident, $i:expr, $f:expr, $left:expr, $op:tt) => {{
        let i = $i;
        if $left {
            match $f % 4 {
                0 => i.clone() $op $x.clone(),
                1 => i.clone() $op $x,
                2 => i $op $x.clone(),
                _ => i $op $x,
            }
        } else {
            match $f % 4 {
                0 => $x.clone() $op i.clone(),
                1 => $x.clone() $op i,
                2 => $x $op i.clone(),
                _ => $x $op i,
            }
        }
    }};
}
macro_rules! int_op {
    ($x:ident, $r:ident, $op:tt) => {
        if $r.unsigned {
            int_form!($x, &$r.uv, $r.form, $r.int_left, $op)
        } else {
            int_form!($x, &$r.iv, $r.form, $r.int_left, $op)
        }
    };
}

macro_rules! impl_rt {
    ($T:ident, $name:expr, $canon:expr, $intflag:expr) => {
        impl Rt for $T {
            const NAME: &'static str = $name;
            const CANON: bool = $canon;
            fn num(&self) -> BigInt {
                i2n(self.numerator())
            }
            fn den(&self) -> BigInt {
                BigInt::from(u2n(self.denominator()))
            }
            fn zero_flag(&self) -> bool {
                self.is_zero()
            }
            fn one_flag(&self) -> bool {
                self.is_one()
            }
            fn int_flag(&self) -> Option<bool> {
                let f: fn(&$T) -> Option<bool> = $intflag;
                f(self)
            }
            fn neg_flag(&self) -> bool {
                self.sign() == Sign::Negative
            }
            fn text(&self) -> (String, Option<(BigInt, BigInt)>, String) {
                let t = format!("{}", self);
                let back = <$T as std::str::FromStr>::from_str(&t).ok().map(|v| (i2n(v.numerator()), BigInt::from(u2n(v.denominator()))));
                (t, back, format!("{:?}", self))
            }
            fn from_int(q: IBig) -> Self {
                <$T>::from(q)
            }
            fn exec(pool: &[Self; POOL], r: &R) -> Prod<Self> {
                let x = &pool[r.a];
                let y = &pool[r.b];
                Prod::V(match r.kind {
                    Add => bin_form!(x, y, r.form, +, +=),
                    Sub => bin_form!(x, y, r.form, -, -=),
                    Mul => bin_form!(x, y, r.form, *, *=),
                    Div => bin_form!(x, y, r.form, /, /=),
                    Rem => bin_form!(x, y, r.form, %, %=),
                    RemEuclid => tr_form!(x, y, r.form, RemEuclid::rem_euclid),
                    DivEuclid => return Prod::Q(tr_form!(x, y, r.form, DivEuclid::div_euclid)),
                    DivRemEuclid => {
                        let (q, v) = tr_form!(x, y, r.form, DivRemEuclid::div_rem_euclid);
                        return Prod::QV(q, v);
                    }
                    AddInt => int_op!(x, r, +),
                    SubInt => int_op!(x, r, -),
                    MulInt => int_op!(x, r, *),
                    DivInt => int_op!(x, r, /),
                    Pow => x.pow(r.exp),
                    Sqr => x.sqr(),
                    Cubic => x.cubic(),
                    Inv => {
                        if r.form % 2 == 0 {
                            Inverse::inv(x.clone())
                        } else {
                            Inverse::inv(x)
                        }
                    }
                    Neg => {
                        if r.form % 2 == 0 {
                            -x.clone()
                        } else {
                            -x
                        }
                    }
                    Abs => Abs::abs(x.clone()),
                    Signum => x.signum(),
                    MulSign => x.clone() * r.sign,
                    Fract => x.fract(),
                    SplitAtPoint => {
                        let (q, v) = x.clone().split_at_point();
                        return Prod::QV(q, v);
                    }
                    CloneFrom => {
                        let mut t = y.clone();
                        t.clone_from(x);
                        t
                    }
                    FromParts => <$T>::from_parts(r.pn.clone(), r.pd.clone()),
                    Parse => {
                        let radix = [10u32, 2, 16, 36, 7, 10][r.form as usize % 6];
                        let text = format!("{}/{}", r.pn.in_radix(radix), r.pd.in_radix(radix));
                        let got = match (r.form / 6) % 3 {
                            0 => <$T>::from_str_radix(&text, radix).ok(),
                            1 if radix == 10 => <$T as std::str::FromStr>::from_str(&text).ok(),
                            1 => <$T>::from_str_radix(&text, radix).ok(),
                            _ => {
                                // radix prefixes on both parts (2, 16) or none (10)
                                let pre = match radix { 2 => "0b", 16 => "0x", _ => "" };
                                if radix == 2 || radix == 16 || radix == 10 {
                                    let (sg, mag) = (if r.pn.sign() == Sign::Negative { "-" } else { "" }, r.pn.clone() * r.pn.sign());
                                    let t2 = format!("{sg}{pre}{}/{pre}{}", mag.in_radix(radix), r.pd.in_radix(radix));
                                    <$T>::from_str_with_radix_prefix(&t2).ok().map(|v| v.0)
                                } else {
                                    <$T>::from_str_radix(&text, radix).ok()
                                }
                            }
                        };
                        match got {
                            Some(v) => v,
                            None => return Prod::Nothing,
                        }
                    }
                    Decode => match serde_json::from_str::<$T>(&format!("\"{}/{}\"", r.pn, r.pd)) {
                        Ok(v) => v,
                        Err(_) => return Prod::Nothing,
                    },
                    FromPartsSigned => <$T>::from_parts_signed(r.pn.clone(), r.pds.clone()),
                    FromPartsConst => <$T>::from_parts_const(r.sign, r.cn, r.cd),
                    FromInt => match r.form % 6 {
                        0 => <$T>::from(r.iv.clone()),
                        1 => <$T>::from(r.uv.clone()),
                        2 => <$T>::from(r.cn as i64),
                        3 => <$T>::from(r.cn),
                        4 => <$T>::from(r.cn as i8),
                        _ => <$T>::from(r.cn as u16),
                    },
                    FromF64 => match <$T>::try_from(r.f) {
                        Ok(v) => v,
                        Err(_) => return Prod::Nothing,
                    },
                    Relax | Canonicalize | AsRelaxed => unreachable!("cross-pool kinds are handled by the interpreter"),
                })
            }
        }
    };
}
impl_rt!(RBig, "RBig", true, |v| Some(v.is_int()));
impl_rt!(Relaxed, "Relaxed", false, |_| None);

/// The per-value oracle.  RBig: value, den >= 1, gcd = 1, zero = 0/1.  Relaxed: value, den >= 1 and
/// the documented "no common power of two" (rustdoc of `Relaxed`, lib.rs example).  Plus the
/// predicates is_zero / is_one / is_int / sign, which read the same representation.
fn check_val<T: Rt>(out: &mut Out, what: &dyn Fn() -> String, x: &T, m: &Q) -> bool {
    let (n, d) = (x.num(), x.den());
    if d < BigInt::one() {
        out.fail(format!("{}: {} has denominator {} (< 1), numerator {}", what(), T::NAME, show_i(&d), show_i(&n)));
        return false;
    }
    // the model is in lowest terms with a positive denominator (num-rational's invariant), so equal
    // parts settle value and canonical form at once; everything below is the slow path
    let same_parts = &n == m.numer() && &d == m.denom();
    if !same_parts && &n * m.denom() != m.numer() * &d {
        out.fail(format!("{}: {} value {}/{} differs from the exact result {}/{}", what(), T::NAME, show_i(&n), show_i(&d), show_i(m.numer()), show_i(m.denom())));
        return false;
    }
    if T::CANON {
        if !same_parts {
            // right value, den >= 1, but not the parts of the reduced fraction
            if n.is_zero() {
                out.fail(format!("{}: RBig zero stored as 0/{} instead of 0/1", what(), show_i(&d)));
            } else {
                out.fail(format!("{}: RBig not in lowest terms: {}/{} has gcd {}", what(), show_i(&n), show_i(&d), show_i(&n.gcd(&d))));
            }
            return false;
        }
    } else if n.is_even() && d.is_even() {
        out.fail(format!("{}: Relaxed keeps a common factor 2: {}/{}", what(), show_i(&n), show_i(&d)));
        return false;
    }
    // text: `n/d` (just `n` for a denominator of 1), which parses back to the same parts
    if n.bits() + d.bits() <= 1024 {
        let (t, back, dbg) = x.text();
        let want = if d.is_one() { format!("{n}") } else { format!("{n}/{d}") };
        if t != want {
            out.fail(format!("{}: {} prints as {:?}, its parts are {}", what(), T::NAME, truncate(&t, 80), truncate(&want, 80)));
            return false;
        }
        // RBig: the very same parts; Relaxed: the parser may cancel what the value carried along
        let same = match &back {
            Some((bn, bd)) if T::CANON => bn == &n && bd == &d,
            Some((bn, bd)) => bd >= &BigInt::one() && bn * &d == &n * bd,
            None => false,
        };
        if !same {
            out.fail(format!("{}: {} printed as {:?} parses back as {:?}", what(), T::NAME, truncate(&t, 80), back.map(|(a, b)| format!("{}/{}", show_i(&a), show_i(&b)))));
            return false;
        }
        // Debug of the big integers elides the middle of long numbers; short ones are printed in full
        if n.bits() <= 64 && d.bits() <= 64 && dbg != format!("{n} / {d}") {
            out.fail(format!("{}: {} Debug text {:?} for the parts {n} / {d}", what(), T::NAME, dbg));
            return false;
        }
    }
    let (fz, fo, fi, fneg) = (x.zero_flag(), x.one_flag(), x.int_flag(), x.neg_flag());
    if fz != m.is_zero() || fo != m.is_one() || fneg != m.is_negative() || fi.map(|v| v != m.is_integer()).unwrap_or(false) {
        out.fail(format!(
            "{}: {} predicates (is_zero {fz}, is_one {fo}, is_int {fi:?}, negative {fneg}) disagree with the value {}/{}",
            what(),
            T::NAME,
            show_i(m.numer()),
            show_i(m.denom())
        ));
        return false;
    }
    true
}

fn is_div0_panic(m: &str) -> bool {
    let l = m.to_lowercase();
    l.contains("zero") || l.contains("divisor must not be 0")
}

// ------------------------------------------------------------------------------------------------
// model
// ------------------------------------------------------------------------------------------------

enum Exp {
    Val(Q),
    QVal(BigInt, Q),
    Quot(BigInt),
    /// `%`: only constrained (dividend, divisor)
    Rem(Q, Q),
    Panic,
    ConvErr,
}

/// Euclidean division of rationals: a = q·b + r, q integer, 0 <= r < |b|
fn euclid(a: &Q, b: &Q) -> (BigInt, Q) {
    let x = a / b;
    let q = if b.is_positive() { x.floor() } else { x.ceil() }.to_integer();
    let r = a - Q::from_integer(q.clone()) * b;
    assert!(!r.is_negative() && r < b.abs(), "oracle self-check: Euclidean remainder out of range");
    (q, r)
}

fn qint(i: &BigInt) -> Q {
    Q::from_integer(i.clone())
}

fn qbits(q: &Q) -> (u64, u64) {
    (q.numer().bits().max(1), q.denom().bits().max(1))
}

fn signed_const(r: &R) -> BigInt {
    let n = BigInt::from(r.cn);
    if r.sign == Sign::Negative {
        -n
    } else {
        n
    }
}

fn from_int_model(r: &R, iv: &BigInt) -> BigInt {
    match r.form % 6 {
        0 => iv.clone(),
        1 => iv.abs(),
        2 => BigInt::from(r.cn as i64),
        3 => BigInt::from(r.cn),
        4 => BigInt::from(r.cn as i8),
        _ => BigInt::from(r.cn as u16),
    }
}

/// expected outcome of a (same-pool) step, from the model alone
fn expect(r: &R, ma: &Q, mb: &Q, iv: &BigInt, pn: &BigInt, pd: &BigInt) -> Exp {
    let i = qint(iv);
    match r.kind {
        Add => Exp::Val(ma + mb),
        Sub => Exp::Val(ma - mb),
        Mul => Exp::Val(ma * mb),
        Div if mb.is_zero() => Exp::Panic,
        Div => Exp::Val(ma / mb),
        Rem | RemEuclid | DivEuclid | DivRemEuclid if mb.is_zero() => Exp::Panic,
        Rem => Exp::Rem(ma.clone(), mb.clone()),
        RemEuclid => Exp::Val(euclid(ma, mb).1),
        DivEuclid => Exp::Quot(euclid(ma, mb).0),
        DivRemEuclid => {
            let (q, rm) = euclid(ma, mb);
            Exp::QVal(q, rm)
        }
        AddInt => Exp::Val(ma + i),
        SubInt => Exp::Val(if r.int_left { i - ma } else { ma - i }),
        MulInt => Exp::Val(ma * i),
        DivInt => {
            if r.int_left {
                if ma.is_zero() {
                    Exp::Panic
                } else {
                    Exp::Val(i / ma)
                }
            } else if iv.is_zero() {
                Exp::Panic
            } else {
                Exp::Val(ma / i)
            }
        }
        Pow => Exp::Val(ma.pow(r.exp as i32)),
        Sqr => Exp::Val(ma * ma),
        Cubic => Exp::Val(ma * ma * ma),
        Inv if ma.is_zero() => Exp::Panic,
        Inv => Exp::Val(ma.recip()),
        Neg => Exp::Val(-ma),
        Abs => Exp::Val(ma.abs()),
        Signum => Exp::Val(ma.signum()),
        MulSign => Exp::Val(if r.sign == Sign::Negative { -ma } else { ma.clone() }),
        Fract => Exp::Val(ma.fract()),
        SplitAtPoint => Exp::QVal(ma.to_integer(), ma.fract()),
        CloneFrom => Exp::Val(ma.clone()),
        FromParts | FromPartsSigned if pd.is_zero() => Exp::Panic,
        FromParts | FromPartsSigned => Exp::Val(Q::new(pn.clone(), pd.clone())),
        Parse | Decode if pd.is_zero() => Exp::ConvErr,
        Parse | Decode => Exp::Val(Q::new(pn.clone(), pd.clone())),
        FromPartsConst if r.cd == 0 => Exp::Panic,
        FromPartsConst => Exp::Val(Q::new(signed_const(r), BigInt::from(r.cd))),
        FromInt => Exp::Val(qint(&from_int_model(r, iv))),
        FromF64 => match Q::from_float(r.f) {
            Some(v) if r.f.is_finite() => Exp::Val(v),
            _ => Exp::ConvErr,
        },
        Relax | Canonicalize | AsRelaxed => unreachable!(),
    }
}

/// Upper bound, in bits, of numerator and denominator a Relaxed result can have when nothing but
/// powers of two is cancelled, from the bounds of the operands.  Pure function of the case.
fn bound_of(r: &R, a: (u64, u64), b: (u64, u64), ib: u64, pn: u64, pd: u64) -> (u64, u64) {
    let ((na, da), (nb, db)) = (a, b);
    match r.kind {
        Add | Sub => ((na + db).max(nb + da) + 1, da + db),
        Mul => (na + nb, da + db),
        Div => (na + db, da + nb),
        Rem | RemEuclid | DivRemEuclid => (nb + da + 1, da + db),
        DivEuclid => (na + db + 1, 1),
        AddInt | SubInt => (na.max(da + ib) + 1, da),
        MulInt => (na + ib, da),
        DivInt => {
            if r.int_left {
                (da + ib, na)
            } else {
                (na, da + ib)
            }
        }
        Pow => (na * r.exp as u64 + 1, da * r.exp as u64 + 1),
        Sqr => (2 * na, 2 * da),
        Cubic => (3 * na, 3 * da),
        Inv => (da, na),
        Neg | Abs | MulSign | CloneFrom => (na, da),
        Signum => (1, 1),
        Fract | SplitAtPoint => (da, da),
        FromParts | FromPartsSigned | Parse | Decode => (pn, pd),
        FromPartsConst => (128, 128),
        FromInt => (ib.max(128), 1),
        FromF64 => (1100, 1100),
        Relax | Canonicalize | AsRelaxed => (na, da),
    }
}

/// labels + the non-trivial rule, from the operands' actual parts
fn classify(out: &mut Out, kind: Kind, int_left: bool, pa: &(BigInt, BigInt), pb: &(BigInt, BigInt), iv: &BigInt, pn: &BigInt, pd: &BigInt) {
    let ((a, b), (c, d)) = (pa, pb);
    let coprime = |x: &BigInt, y: &BigInt| x.gcd(y).is_one();
    match kind {
        Add | Sub => {
            let g = b.gcd(d);
            if g.is_one() {
                out.label("add/sub:coprime denominators");
            } else {
                out.label("add/sub:gcd-hint path");
                let (bg, dg) = (b / &g, d / &g);
                let n = if kind == Add { a * &dg + c * &bg } else { a * &dg - c * &bg };
                if !n.is_zero() && !coprime(&n, &(b * &dg)) {
                    out.label("add/sub:gcd-hint path, hint reduction non-trivial");
                }
            }
            let n = if kind == Add { a * d + c * b } else { a * d - c * b };
            out.nontrivial(!g.is_one() || !coprime(&n, &(b * d)));
        }
        Mul => {
            let nt = !coprime(a, d) || !coprime(b, c);
            out.label(if nt { "mul:cross-gcd non-trivial" } else { "mul:cross-gcd trivial" });
            out.nontrivial(nt);
        }
        Div if !c.is_zero() => {
            let nt = !coprime(a, c) || !coprime(b, d);
            out.label(if nt { "div:cross-gcd non-trivial" } else { "div:cross-gcd trivial" });
            out.nontrivial(nt);
        }
        Rem | RemEuclid | DivRemEuclid | DivEuclid if !c.is_zero() => {
            let nt = !coprime(b, d);
            out.label(if nt { "rem:denominators share a factor" } else { "rem:coprime denominators" });
            out.nontrivial(nt);
        }
        MulInt => {
            let nt = !coprime(b, iv);
            out.label(if nt { "int-op:gcd(den, int) non-trivial" } else { "int-op:gcd trivial" });
            out.nontrivial(nt);
        }
        DivInt if !int_left && !iv.is_zero() || int_left && !a.is_zero() => {
            let nt = !coprime(a, iv);
            out.label(if nt { "int-op:gcd(num, int) non-trivial" } else { "int-op:gcd trivial" });
            out.nontrivial(nt);
        }
        FromParts | FromPartsSigned | FromPartsConst | Parse | Decode if !pd.is_zero() => {
            let nt = !coprime(pn, pd);
            out.label(if nt { "construct:reducible parts" } else { "construct:coprime parts" });
            out.nontrivial(nt);
        }
        _ => {}
    }
}

// ------------------------------------------------------------------------------------------------
// interpreter
// ------------------------------------------------------------------------------------------------

struct Side<T: Rt> {
    v: [T; POOL],
    m: [Q; POOL],
    /// bit-size bounds of the stored parts (exact for RBig, upper bound for Relaxed)
    bd: [(u64, u64); POOL],
}

fn dword(n: &Nat) -> u128 {
    n.0.first().copied().unwrap_or(0) as u128 | ((n.0.get(1).copied().unwrap_or(0) as u128) << 64)
}

/// integer operand tied to the current value of slot `a`, so that the gcds taken by the mixed
/// forms are non-trivial by construction
fn derive_int(op: &Op, ma: &Q) -> BigInt {
    let raw = op.int.big();
    let v = match op.derive % 10 {
        0..=3 => return raw,
        4 => &raw * ma.denom(),
        5 => &raw * ma.numer(),
        6 => ma.denom().clone(),
        7 => ma.numer().clone(),
        8 => {
            // makes a ± i zero / small when a is (close to) an integer
            let t = ma.to_integer();
            if op.kind == AddInt {
                -t
            } else {
                t
            }
        }
        _ => raw.gcd(ma.denom()) * raw.signum(),
    };
    if v.bits() > CAP_BITS {
        raw
    } else {
        v
    }
}

fn resolve(op: &Op, ma: &Q) -> (R, BigInt, BigInt, BigInt) {
    let mut iv = derive_int(op, ma);
    if op.unsigned {
        iv = iv.abs();
    }
    let pn = op.int.big();
    let pd_mag = BigInt::from(op.nat.big());
    let signed = op.kind == FromPartsSigned;
    let pd = if signed && op.flag { -pd_mag.clone() } else { pd_mag.clone() };
    let sign = if match op.kind {
        FromPartsConst => op.int.neg,
        _ => op.flag,
    } {
        Sign::Negative
    } else {
        Sign::Positive
    };
    let r = R {
        kind: op.kind,
        form: op.form,
        a: op.a as usize % POOL,
        b: op.b as usize % POOL,
        iv: n2i(&iv),
        uv: n2u(iv.magnitude()),
        unsigned: op.unsigned,
        int_left: op.int_left,
        exp: op.exp as usize % 6,
        sign,
        pn: op.int.ibig(),
        pd: op.nat.ubig(),
        pds: n2i(&pd),
        cn: dword(&op.int.mag),
        cd: dword(&op.nat),
        f: f64::from_bits(op.int.mag.0.first().copied().unwrap_or(0)),
    };
    (r, iv, pn, pd)
}

fn check_side<T: Rt>(out: &mut Out, step: &dyn Fn() -> String, s: &Side<T>) -> bool {
    for k in 0..POOL {
        if !check_val(out, &|| format!("{} — pool slot {}[{k}]", step(), T::NAME), &s.v[k], &s.m[k]) {
            return false;
        }
    }
    true
}

/// One same-pool step.  Returns false when interpretation must stop (violation).
fn step<T: Rt>(out: &mut Out, ctx: &Ctx, idx: usize, op: &Op, s: &mut Side<T>) -> bool {
    let (a, b, dst) = (op.a as usize % POOL, op.b as usize % POOL, op.dst as usize % POOL);
    let (r, iv, pn, pd) = resolve(op, &s.m[a]);
    let desc = || format!("step {idx} {:?} on {} (a={a}, b={b}, dst={dst}, form {}, int {}, unsigned {}, int_left {})", op.kind, T::NAME, op.form, show_i(&iv), op.unsigned, op.int_left);
    let exp = expect(&r, &s.m[a], &s.m[b], &iv, &pn, &pd);
    // size cap, decided from the model
    let bound = match &exp {
        Exp::Val(v) | Exp::QVal(_, v) if T::CANON => qbits(v),
        Exp::Quot(q) => (q.bits().max(1), 1),
        _ => bound_of(&r, s.bd[a], s.bd[b], iv.bits().max(1), pn.bits().max(1), pd.bits().max(1)),
    };
    if !matches!(exp, Exp::Panic | Exp::ConvErr) && (bound.0 > CAP_BITS || bound.1 > CAP_BITS) {
        out.label("skipped:size cap");
        return true;
    }
    out.label(kind_label(op.kind));
    let pa = (s.v[a].num(), s.v[a].den());
    let pb = (s.v[b].num(), s.v[b].den());
    classify(out, op.kind, op.int_left, &pa, &pb, &iv, &pn, &pd);

    let got = catch(|| T::exec(&s.v, &r));
    let (val, model): (T, Q) = match (exp, got) {
        (Exp::Panic, Err(m)) => {
            out.label("division by zero panics");
            out.check(is_div0_panic(&m), || format!("{}: panicked, but not with a divide-by-zero message: {}", desc(), normalise(&m)));
            return out.is_pass() || !matches!(out.verdict, Verdict::Violation(_));
        }
        (Exp::Panic, Ok(p)) => {
            let shown = match &p {
                Prod::V(v) | Prod::QV(_, v) => format!("{}/{}", show_i(&v.num()), show_i(&v.den())),
                Prod::Q(q) => show_i(&i2n(q)),
                Prod::Nothing => "Err".into(),
            };
            if op.kind == Inv {
                // call: Inverse::inv (RBig / Relaxed, owned and by reference); input: value zero
                ctx.known_or_fail(out, "C04/inv-zero-no-panic", || format!("{}: inv() of zero returned {shown} instead of panicking", desc()));
                return !matches!(out.verdict, Verdict::Violation(_));
            }
            out.fail(format!("{}: division by zero returned {shown} instead of panicking", desc()));
            return false;
        }
        (_, Err(m)) => {
            out.fail(format!("{}: unexpected panic: {}", desc(), normalise(&m)));
            return false;
        }
        (Exp::Val(m), Ok(Prod::V(v))) => (v, m),
        (Exp::QVal(q, m), Ok(Prod::QV(gq, v))) => {
            if i2n(&gq) != q {
                out.fail(format!("{}: integer part {} differs from the exact {}", desc(), show_i(&i2n(&gq)), show_i(&q)));
                return false;
            }
            (v, m)
        }
        (Exp::Quot(q), Ok(Prod::Q(gq))) => {
            if i2n(&gq) != q {
                out.fail(format!("{}: quotient {} differs from the exact {}", desc(), show_i(&i2n(&gq)), show_i(&q)));
                return false;
            }
            // the quotient goes back into the pool through From<IBig>
            (T::from_int(gq), qint(&q))
        }
        (Exp::Rem(ma, mb), Ok(Prod::V(v))) => {
            let (n, d) = (v.num(), v.den());
            if d < BigInt::one() {
                out.fail(format!("{}: remainder has denominator {}", desc(), show_i(&d)));
                return false;
            }
            let rm = Q::new(n, d);
            // `%` has no rustdoc: only what every reading supports
            if !((&ma - &rm) / &mb).is_integer() || rm.abs() >= mb.abs() {
                out.fail(format!(
                    "{}: r = {}/{} is not a remainder of a = {}/{} by b = {}/{} ((a-r)/b integer and |r| < |b| required)",
                    desc(),
                    show_i(rm.numer()),
                    show_i(rm.denom()),
                    show_i(ma.numer()),
                    show_i(ma.denom()),
                    show_i(mb.numer()),
                    show_i(mb.denom())
                ));
                return false;
            }
            out.label(if &rm.abs() * BigInt::from(2) <= mb.abs() { "rem:least magnitude" } else { "rem:not least magnitude" });
            (v, rm)
        }
        (Exp::ConvErr, Ok(Prod::Nothing)) => return true,
        (Exp::ConvErr, Ok(_)) => {
            out.fail(format!("{}: try_from(non-finite f64) returned Ok", desc()));
            return false;
        }
        (Exp::Val(_), Ok(Prod::Nothing)) => {
            out.fail(format!("{}: try_from(finite f64 {:e}) returned Err", desc(), r.f));
            return false;
        }
        _ => {
            out.fail(format!("{}: harness error, outcome shape does not match the expectation", desc()));
            return false;
        }
    };
    out.label(match qbits(&model).0.max(qbits(&model).1) {
        0..=64 => "result size:1 word",
        65..=192 => "result size:2-3 words",
        193..=768 => "result size:4-12 words",
        _ => "result size:13-60 words",
    });
    if model.is_zero() {
        out.label("result:zero");
    } else if model.is_integer() {
        out.label("result:integer");
    }
    s.bd[dst] = if T::CANON { qbits(&model) } else { bound };
    s.v[dst] = val;
    s.m[dst] = model;
    check_side(out, &desc, s)
}

fn run_seq(c: &SeqCase, ctx: &Ctx) -> Out {
    let mut out = Out::new();
    // ---- initial pools from the seeds, through from_parts (non-reduced inputs)
    let seed = |k: usize| -> (BigInt, BigInt) {
        match c.seeds.get(k) {
            Some(s) => (s.num.big(), nz(BigInt::from(s.den.big()))),
            None => (BigInt::zero(), BigInt::one()),
        }
    };
    let mut mq: Vec<Q> = Vec::new();
    let mut mr: Vec<Q> = Vec::new();
    let mut vq: Vec<RBig> = Vec::new();
    let mut vr: Vec<Relaxed> = Vec::new();
    let mut br = Vec::new();
    for k in 0..POOL {
        let (n, d) = seed(k);
        match catch(|| RBig::from_parts(n2i(&n), n2u(d.magnitude()))) {
            Ok(v) => vq.push(v),
            Err(m) => {
                out.fail(format!("seed {k}: RBig::from_parts unexpected panic: {}", normalise(&m)));
                return out;
            }
        }
        if !n.gcd(&d).is_one() {
            out.label("construct:reducible parts");
            out.nontrivial(true);
        }
        mq.push(Q::new(n, d));
        let (n, d) = seed(POOL + k);
        match catch(|| Relaxed::from_parts(n2i(&n), n2u(d.magnitude()))) {
            Ok(v) => vr.push(v),
            Err(m) => {
                out.fail(format!("seed {}: Relaxed::from_parts unexpected panic: {}", POOL + k, normalise(&m)));
                return out;
            }
        }
        br.push((n.bits().max(1), d.bits().max(1)));
        mr.push(Q::new(n, d));
    }
    let bq: Vec<(u64, u64)> = mq.iter().map(qbits).collect();
    let mut sq: Side<RBig> = Side { v: vq.try_into().ok().unwrap(), m: mq.try_into().ok().unwrap(), bd: bq.try_into().ok().unwrap() };
    let mut sr: Side<Relaxed> = Side { v: vr.try_into().ok().unwrap(), m: mr.try_into().ok().unwrap(), bd: br.try_into().ok().unwrap() };
    if !check_side(&mut out, &|| "initial pool (from_parts of the seeds)".to_string(), &sq) || !check_side(&mut out, &|| "initial pool (from_parts of the seeds)".to_string(), &sr) {
        return out;
    }

    // ---- steps
    for (idx, op) in c.ops.iter().enumerate() {
        let (a, dst) = (op.a as usize % POOL, op.dst as usize % POOL);
        let go = match op.kind {
            Relax | AsRelaxed => {
                out.label(kind_label(op.kind));
                let desc = || format!("step {idx} {:?} (RBig[{a}] -> Relaxed[{dst}])", op.kind);
                let got = catch(|| if op.kind == Relax { sq.v[a].clone().relax() } else { sq.v[a].as_relaxed().clone() });
                match got {
                    Ok(v) => {
                        sr.v[dst] = v;
                        sr.m[dst] = sq.m[a].clone();
                        sr.bd[dst] = sq.bd[a];
                        check_side(&mut out, &desc, &sr) && check_side(&mut out, &desc, &sq)
                    }
                    Err(m) => {
                        out.fail(format!("{}: unexpected panic: {}", desc(), normalise(&m)));
                        false
                    }
                }
            }
            Canonicalize => {
                out.label(kind_label(op.kind));
                let desc = || format!("step {idx} Canonicalize (Relaxed[{a}] -> RBig[{dst}])");
                let (n, d) = (sr.v[a].num(), sr.v[a].den());
                if !n.gcd(&d).is_one() {
                    out.label("canonicalize:reducible parts");
                    out.nontrivial(true);
                }
                match catch(|| sr.v[a].clone().canonicalize()) {
                    Ok(v) => {
                        sq.v[dst] = v;
                        sq.m[dst] = sr.m[a].clone();
                        sq.bd[dst] = qbits(&sq.m[dst]);
                        check_side(&mut out, &desc, &sq) && check_side(&mut out, &desc, &sr)
                    }
                    Err(m) => {
                        out.fail(format!("{}: unexpected panic: {}", desc(), normalise(&m)));
                        false
                    }
                }
            }
            _ => {
                if op.relaxed {
                    step(&mut out, ctx, idx, op, &mut sr)
                } else {
                    step(&mut out, ctx, idx, op, &mut sq)
                }
            }
        };
        if !go {
            break;
        }
    }
    out.label(match c.ops.len() {
        0 => "steps:0",
        1..=5 => "steps:1-5",
        6..=15 => "steps:6-15",
        _ => "steps:>15",
    });
    out
}

// ------------------------------------------------------------------------------------------------
// stateless: every ownership / assign / mixed-integer form once per operand pair
// ------------------------------------------------------------------------------------------------

fn cmp_v<T: Rt>(out: &mut Out, ctx: &Ctx, what: &str, form: &str, got: Result<T, String>, want: Option<&Q>) {
    match (got, want) {
        (Ok(v), Some(m)) => {
            check_val(out, &|| format!("{} {what} [{form}]", T::NAME), &v, m);
        }
        (Err(m), None) => out.check(is_div0_panic(&m), || format!("{} {what} [{form}]: panicked, but not with a divide-by-zero message: {}", T::NAME, normalise(&m))),
        (Ok(v), None) => {
            let d = || format!("{} {what} [{form}]: division by zero returned {}/{} instead of panicking", T::NAME, show_i(&v.num()), show_i(&v.den()));
            if what == "inv" {
                ctx.known_or_fail(out, "C04/inv-zero-no-panic", d);
            } else {
                out.fail(d());
            }
        }
        (Err(m), Some(_)) => out.fail(format!("{} {what} [{form}]: unexpected panic: {}", T::NAME, normalise(&m))),
    }
}

fn cmp_q(out: &mut Out, tname: &str, what: &str, form: &str, got: Result<IBig, String>, want: Option<&BigInt>) {
    match (got, want) {
        (Ok(v), Some(q)) => out.check(&i2n(&v) == q, || format!("{tname} {what} [{form}]: quotient {} differs from the exact {}", show_i(&i2n(&v)), show_i(q))),
        (Err(m), None) => out.check(is_div0_panic(&m), || format!("{tname} {what} [{form}]: panicked, but not with a divide-by-zero message: {}", normalise(&m))),
        (Ok(v), None) => out.fail(format!("{tname} {what} [{form}]: division by zero returned {} instead of panicking", show_i(&i2n(&v)))),
        (Err(m), Some(_)) => out.fail(format!("{tname} {what} [{form}]: unexpected panic: {}", normalise(&m))),
    }
}

macro_rules! forms6 {
    ($x:ident, $y:ident, $op:tt, $opa:tt) => {
        vec![
            ("val.val", catch(|| $x.clone() $op $y.clone())),
            ("val.ref", catch(|| $x.clone() $op $y)),
            ("ref.val", catch(|| $x $op $y.clone())),
            ("ref.ref", catch(|| $x $op $y)),
            ("assign.val", catch(|| { let mut t = $x.clone(); t $opa $y.clone(); t })),
            ("assign.ref", catch(|| { let mut t = $x.clone(); t $opa $y; t })),
        ]
    };
}
macro_rules! forms4 {
    ($x:ident, $y:ident, $tr:ident :: $m:ident) => {
        vec![
            ("val.val", catch(|| $tr::$m($x.clone(), $y.clone()))),
            ("val.ref", catch(|| $tr::$m($x.clone(), $y))),
            ("ref.val", catch(|| $tr::$m($x, $y.clone()))),
            ("ref.ref", catch(|| $tr::$m($x, $y))),
        ]
    };
}
macro_rules! forms_int {
    ($x:ident, $i:ident, $op:tt) => {
        (
            vec![
                ("rat.int val.val", catch(|| $x.clone() $op $i.clone())),
                ("rat.int val.ref", catch(|| $x.clone() $op $i)),
                ("rat.int ref.val", catch(|| $x $op $i.clone())),
                ("rat.int ref.ref", catch(|| $x $op $i)),
            ],
            vec![
                ("int.rat val.val", catch(|| $i.clone() $op $x.clone())),
                ("int.rat val.ref", catch(|| $i.clone() $op $x)),
                ("int.rat ref.val", catch(|| $i $op $x.clone())),
                ("int.rat ref.ref", catch(|| $i $op $x)),
            ],
        )
    };
}

macro_rules! pair_body {
    ($T:ident, $out:ident, $ctx:ident, $c:ident, $mx:ident, $my:ident, $rems:ident) => {{
        let built = catch(|| (<$T>::from_parts($c.x.num.ibig(), $c.x.den.ubig()), <$T>::from_parts($c.y.num.ibig(), $c.y.den.ubig())));
        match built {
            Err(m) => $out.fail(format!("{}::from_parts: unexpected panic: {}", <$T as Rt>::NAME, normalise(&m))),
            Ok((xv, yv)) => {
                let (x, y) = (&xv, &yv);
                check_val(&mut $out, &|| format!("{}::from_parts(x)", <$T as Rt>::NAME), x, &$mx);
                check_val(&mut $out, &|| format!("{}::from_parts(y)", <$T as Rt>::NAME), y, &$my);
                let yz = $my.is_zero();
                let (w_add, w_sub, w_mul) = (&$mx + &$my, &$mx - &$my, &$mx * &$my);
                for (f, r) in forms6!(x, y, +, +=) {
                    cmp_v(&mut $out, $ctx, "+", f, r, Some(&w_add));
                }
                for (f, r) in forms6!(x, y, -, -=) {
                    cmp_v(&mut $out, $ctx, "-", f, r, Some(&w_sub));
                }
                for (f, r) in forms6!(x, y, *, *=) {
                    cmp_v(&mut $out, $ctx, "*", f, r, Some(&w_mul));
                }
                let quo = if yz { None } else { Some(&$mx / &$my) };
                for (f, r) in forms6!(x, y, /, /=) {
                    cmp_v(&mut $out, $ctx, "/", f, r, quo.as_ref());
                }
                // `%`: undocumented; (x - r)/y integer, |r| < |y|, and all forms / both types agree
                for (f, r) in forms6!(x, y, %, %=) {
                    match r {
                        Err(m) => {
                            if !yz {
                                $out.fail(format!("{} % [{f}]: unexpected panic: {}", <$T as Rt>::NAME, normalise(&m)));
                            } else {
                                $out.check(is_div0_panic(&m), || format!("{} % 0 [{f}]: panicked, but not with a divide-by-zero message: {}", <$T as Rt>::NAME, normalise(&m)));
                            }
                        }
                        Ok(v) if yz => $out.fail(format!("{} % 0 [{f}]: returned {}/{} instead of panicking", <$T as Rt>::NAME, show_i(&v.num()), show_i(&v.den()))),
                        Ok(v) => {
                            if v.den() < BigInt::one() {
                                $out.fail(format!("{} % [{f}]: remainder has denominator {}", <$T as Rt>::NAME, show_i(&v.den())));
                                continue;
                            }
                            let rm = Q::new(v.num(), v.den());
                            check_val(&mut $out, &|| format!("{} % [{f}]", <$T as Rt>::NAME), &v, &rm);
                            $out.check(((&$mx - &rm) / &$my).is_integer() && rm.abs() < $my.abs(), || {
                                format!("{} % [{f}]: r = {}/{} is not a remainder ((x-r)/y integer and |r| < |y| required)", <$T as Rt>::NAME, show_i(rm.numer()), show_i(rm.denom()))
                            });
                            match &$rems {
                                None => $rems = Some(rm),
                                Some(first) => $out.check(first == &rm, || {
                                    format!("{} % [{f}]: r = {}/{} differs from the remainder {}/{} of another form / of RBig for the same operands", <$T as Rt>::NAME, show_i(rm.numer()), show_i(rm.denom()), show_i(first.numer()), show_i(first.denom()))
                                }),
                            }
                        }
                    }
                }
                // Euclidean trio: documented by the dashu_base traits, asserted in full
                let eu = if yz { None } else { Some(euclid(&$mx, &$my)) };
                for (f, r) in forms4!(x, y, RemEuclid::rem_euclid) {
                    cmp_v(&mut $out, $ctx, "rem_euclid", f, r, eu.as_ref().map(|e| &e.1));
                }
                for (f, r) in forms4!(x, y, DivEuclid::div_euclid) {
                    cmp_q(&mut $out, <$T as Rt>::NAME, "div_euclid", f, r, eu.as_ref().map(|e| &e.0));
                }
                for (f, r) in forms4!(x, y, DivRemEuclid::div_rem_euclid) {
                    match r {
                        Ok((q, v)) => {
                            cmp_q(&mut $out, <$T as Rt>::NAME, "div_rem_euclid", f, Ok(q), eu.as_ref().map(|e| &e.0));
                            cmp_v(&mut $out, $ctx, "div_rem_euclid", f, Ok(v), eu.as_ref().map(|e| &e.1));
                        }
                        Err(m) => cmp_q(&mut $out, <$T as Rt>::NAME, "div_rem_euclid", f, Err(m), eu.as_ref().map(|e| &e.0)),
                    }
                }
                // mixed integer forms, UBig and IBig on either side
                let ni = $c.i.big();
                let (ii, ui) = (&$c.i.ibig(), &$c.i.mag.ubig());
                for (tag, qi) in [("IBig", qint(&ni)), ("UBig", qint(&ni.abs()))] {
                    macro_rules! run_int {
                        ($i:ident) => {{
                            let (n_add, n_sub, n_mul, n_div) = (format!("+ {tag}"), format!("- {tag}"), format!("* {tag}"), format!("/ {tag}"));
                            let (wi_add, wi_sub, wi_bus, wi_mul) = (&$mx + &qi, &$mx - &qi, &qi - &$mx, &$mx * &qi);
                            let (l, r) = forms_int!(x, $i, +);
                            for (f, g) in l.into_iter().chain(r) {
                                cmp_v(&mut $out, $ctx, &n_add, f, g, Some(&wi_add));
                            }
                            let (l, r) = forms_int!(x, $i, -);
                            for (f, g) in l {
                                cmp_v(&mut $out, $ctx, &n_sub, f, g, Some(&wi_sub));
                            }
                            for (f, g) in r {
                                cmp_v(&mut $out, $ctx, &n_sub, f, g, Some(&wi_bus));
                            }
                            let (l, r) = forms_int!(x, $i, *);
                            for (f, g) in l.into_iter().chain(r) {
                                cmp_v(&mut $out, $ctx, &n_mul, f, g, Some(&wi_mul));
                            }
                            let (l, r) = forms_int!(x, $i, /);
                            let want_l = if qi.is_zero() { None } else { Some(&$mx / &qi) };
                            let want_r = if $mx.is_zero() { None } else { Some(&qi / &$mx) };
                            for (f, g) in l {
                                cmp_v(&mut $out, $ctx, &n_div, f, g, want_l.as_ref());
                            }
                            for (f, g) in r {
                                cmp_v(&mut $out, $ctx, &n_div, f, g, want_r.as_ref());
                            }
                        }};
                    }
                    if tag == "IBig" {
                        run_int!(ii)
                    } else {
                        run_int!(ui)
                    }
                }
                // unary
                let inv = if $mx.is_zero() { None } else { Some($mx.recip()) };
                cmp_v(&mut $out, $ctx, "inv", "val", catch(|| Inverse::inv(x.clone())), inv.as_ref());
                cmp_v(&mut $out, $ctx, "inv", "ref", catch(|| Inverse::inv(x)), inv.as_ref());
                cmp_v(&mut $out, $ctx, "neg", "val", catch(|| -x.clone()), Some(&-&$mx));
                cmp_v(&mut $out, $ctx, "neg", "ref", catch(|| -x), Some(&-&$mx));
                cmp_v(&mut $out, $ctx, "abs", "val", catch(|| Abs::abs(x.clone())), Some(&$mx.abs()));
                cmp_v(&mut $out, $ctx, "signum", "ref", catch(|| x.signum()), Some(&$mx.signum()));
                cmp_v(&mut $out, $ctx, "sqr", "ref", catch(|| x.sqr()), Some(&(&$mx * &$mx)));
                cmp_v(&mut $out, $ctx, "cubic", "ref", catch(|| y.cubic()), Some(&(&$my * &$my * &$my)));
                cmp_v(&mut $out, $ctx, "pow(4)", "ref", catch(|| y.pow(4)), Some(&$my.pow(4)));
                cmp_v(&mut $out, $ctx, "pow(0)", "ref", catch(|| y.pow(0)), Some(&Q::one()));
                cmp_v(&mut $out, $ctx, "pow(1)", "ref", catch(|| y.pow(1)), Some(&$my));
                // zero denominators: every constructor panics
                let n = $c.x.num.ibig();
                let s = if $c.x.num.neg { Sign::Negative } else { Sign::Positive };
                cmp_v(&mut $out, $ctx, "from_parts(n, 0)", "-", catch(|| <$T>::from_parts(n.clone(), UBig::ZERO)), None);
                cmp_v(&mut $out, $ctx, "from_parts_signed(n, 0)", "-", catch(|| <$T>::from_parts_signed(n.clone(), IBig::ZERO)), None);
                cmp_v(&mut $out, $ctx, "from_parts_const(s, n, 0)", "-", catch(|| <$T>::from_parts_const(s, dword(&$c.x.num.mag), 0)), None);
            }
        }
    }};
}

fn binop_forms(c: &PairCase, ctx: &Ctx) -> Out {
    let mut out = Out::new();
    let (xn, xd) = (c.x.num.big(), nz(BigInt::from(c.x.den.big())));
    let (yn, yd) = (c.y.num.big(), nz(BigInt::from(c.y.den.big())));
    if c.x.den.is_zero() || c.y.den.is_zero() {
        out.inconclusive("replayed case with a zero seed denominator");
        return out;
    }
    let mx = Q::new(xn.clone(), xd.clone());
    let my = Q::new(yn.clone(), yd.clone());
    let ni = c.i.big();
    let px = (mx.numer().clone(), mx.denom().clone());
    let py = (my.numer().clone(), my.denom().clone());
    let one = BigInt::one();
    // labels / non-trivial rule from the reduced operands (what the RBig operators see)
    if !xn.gcd(&xd).is_one() || !yn.gcd(&yd).is_one() {
        out.label("construct:reducible parts");
        out.nontrivial(true);
    }
    for k in [Add, Sub, Mul, Div, Rem] {
        classify(&mut out, k, false, &px, &py, &ni, &one, &one);
    }
    classify(&mut out, MulInt, false, &px, &py, &ni, &one, &one);
    classify(&mut out, DivInt, false, &px, &py, &ni, &one, &one);
    if my.is_zero() {
        out.label("division by zero panics");
    }
    if ni.is_zero() {
        out.label("int operand zero");
    }
    if (&mx + &my).is_zero() || (&mx - &my).is_zero() {
        out.label("result:zero");
    }
    let mut rems: Option<Q> = None;
    pair_body!(RBig, out, ctx, c, mx, my, rems);
    pair_body!(Relaxed, out, ctx, c, mx, my, rems);
    out
}

fn main() {
    let mut ck = Check::new(
        "C04",
        "stateful: 8 seed rationals (a·g)/(b·g) with sequence-wide shared factors g (zero numerators, integers, denominators 1 and 2^k, parts mostly 1-3 words, sometimes 10-40) initialise a pool of 4 RBig + 4 Relaxed beside a BigRational model; up to 25 (thorough 40) steps drawn from + - * / % rem_euclid div_euclid div_rem_euclid (six ownership/assign forms), mixed UBig/IBig forms on either side with the integer tied to the operand's numerator/denominator, pow sqr cubic inv neg abs signum ·Sign fract split_at_point clone_from, from_parts / from_parts_signed / from_parts_const / From<int> / TryFrom<f64>, relax / as_relaxed / canonicalize; results are fed back, parts capped at 60 words from the model. After every step every pool value is read through raw words: value = model, den >= 1, RBig gcd = 1 and 0 = 0/1, Relaxed without a common factor 2, predicates consistent; division by zero must panic, nothing else may. Stateless sub: every ownership / assign / mixed-integer form once per operand pair, RBig and Relaxed against the model and (for %) against each other. Non-trivial: a sequence with at least one step whose operands share a factor or whose naive result is reducible (pair sub: same rule on the pair); distinct by case digest.",
    );
    let steps = if ck.thorough() { 40 } else { 25 };
    ck.sub("sequences", (20_000, 500_000), move || seq_case(steps), run_seq);
    ck.sub("binop_forms", (50_000, 1_250_000), pair_case, binop_forms);
    ck.finish();
}
