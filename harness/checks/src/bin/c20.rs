//! C20 — literal macros build the number that was written.
//!
//! Generated programs: a proptest strategy over the literal grammar of `ubig! ibig! fbig! dbig!
//! rbig!` and their `static_` variants produces literal token texts together with the equivalent
//! run-time text and the value the generator meant. The literals are written into a crate that
//! depends on the working tree of dashu, compiled, and run; every produced value is compared
//! (through raw words) with the run-time parse of the same text and with the generator's value.
//! Literals outside the documented grammar go into a second crate, one `[[bin]]` each: every one
//! must fail to compile.
use dv::gen::SplitMix;
use dv::*;
use num_bigint::BigUint;
use num_integer::Integer;
use num_traits::{One, Zero};
use proptest::prelude::*;
use serde::{Deserialize, Serialize};
use serde_json::{json, Value};
use std::collections::{BTreeMap, BTreeSet, HashMap};
use std::process::Command;
use std::sync::Mutex;
use std::time::Instant;

// ------------------------------------------------------------------------------------------------
// the case: one macro invocation
// ------------------------------------------------------------------------------------------------

const MUST: u8 = 0; // documented literal: must compile and yield the written number
const MAY: u8 = 1; // form the macro docs neither show nor exclude: may be rejected; if accepted, the number must be right
const FAIL: u8 = 2; // outside the documented grammar: must be rejected

#[derive(Debug, Clone, Hash, Serialize, Deserialize)]
struct Lit {
    /// `ubig`, `static_ubig`, `ibig`, ... (invoked as `dashu::<mac>!`)
    mac: String,
    /// what is written between the parentheses
    tokens: String,
    /// 0 expression, 1 `const` item, 2 `static` item
    pos: u8,
    /// MUST / MAY / FAIL
    expect: u8,
    /// the fields below describe the number the text denotes (always true for MUST / MAY)
    denotes: bool,
    /// the same text for the run-time parser
    text: String,
    /// 0: prefix-aware parser (`from_str_with_radix_prefix`), N: `from_str_radix(text, N)`; unused for floats
    radix: u32,
    /// the generator's own value in canonical form (`-0x1f`, `0x3*2^-5`, `-0x3/0x2`); "" = none
    want: String,
    /// precision the macro docs promise (written digits; 0 for the static word-array path), -1 = not asserted
    prec: i64,
    /// second accepted precision where two documents disagree, -1 = none
    alt: i64,
    /// compare the precision with the run-time parse as well
    prec_rt: bool,
    /// evidence labels
    labels: Vec<String>,
    /// literal needs more than 32 bits, or is a float / ratio
    nontrivial: bool,
}

fn kind_of(mac: &str, tokens: &str) -> (u8, &'static str) {
    let m = mac.trim_start_matches("static_");
    match m {
        "ubig" => (0, "dashu::integer::UBig"),
        "ibig" => (1, "dashu::integer::IBig"),
        "fbig" => (2, "dashu::float::FBig"),
        "dbig" => (3, "dashu::float::DBig"),
        _ => {
            if tokens.trim_start().starts_with('~') {
                (5, "dashu::rational::Relaxed")
            } else {
                (4, "dashu::rational::RBig")
            }
        }
    }
}

// ------------------------------------------------------------------------------------------------
// model of rustc's lexer for the token shapes used here (rustc_lexer::Cursor::number + the
// validation in rustc_parse::lexer): decides whether a text reaches the macro at all
// ------------------------------------------------------------------------------------------------

#[derive(Debug, Clone, PartialEq)]
enum Tok {
    Num(String),
    Ident(String),
    Punct(char),
}

fn is_id_start(c: u8) -> bool {
    c == b'_' || c.is_ascii_alphabetic()
}
fn is_id_continue(c: u8) -> bool {
    c == b'_' || c.is_ascii_alphanumeric()
}

/// end of the number literal starting at `start`, or the lexer error
fn lex_number(b: &[u8], start: usize) -> Result<usize, String> {
    let peek = |i: usize| b.get(i).copied().unwrap_or(0);
    let eat_dec = |i: &mut usize| -> bool {
        let mut has = false;
        loop {
            match peek(*i) {
                b'_' => *i += 1,
                b'0'..=b'9' => {
                    has = true;
                    *i += 1
                }
                _ => break,
            }
        }
        has
    };
    let eat_hex = |i: &mut usize| -> bool {
        let mut has = false;
        loop {
            match peek(*i) {
                b'_' => *i += 1,
                b'0'..=b'9' | b'a'..=b'f' | b'A'..=b'F' => {
                    has = true;
                    *i += 1
                }
                _ => break,
            }
        }
        has
    };
    let mut i = start + 1;
    let mut base = 10u32;
    let mut digits_from = start;
    let mut just_zero = false;
    if b[start] == b'0' {
        match peek(i) {
            b'b' => {
                base = 2;
                i += 1;
                digits_from = i;
                if !eat_dec(&mut i) {
                    return Err("no valid digits found for number".into());
                }
            }
            b'o' => {
                base = 8;
                i += 1;
                digits_from = i;
                if !eat_dec(&mut i) {
                    return Err("no valid digits found for number".into());
                }
            }
            b'x' => {
                base = 16;
                i += 1;
                digits_from = i;
                if !eat_hex(&mut i) {
                    return Err("no valid digits found for number".into());
                }
            }
            b'0'..=b'9' | b'_' => {
                eat_dec(&mut i);
            }
            b'.' | b'e' | b'E' => {}
            _ => just_zero = true,
        }
    } else {
        eat_dec(&mut i);
    }
    let digits_to = i;
    let mut is_float = false;
    if !just_zero {
        let eat_exp = |i: &mut usize| -> bool {
            if peek(*i) == b'-' || peek(*i) == b'+' {
                *i += 1;
            }
            eat_dec(i)
        };
        match peek(i) {
            b'.' if peek(i + 1) != b'.' && !is_id_start(peek(i + 1)) => {
                i += 1;
                is_float = true;
                if peek(i).is_ascii_digit() {
                    eat_dec(&mut i);
                    if peek(i) == b'e' || peek(i) == b'E' {
                        i += 1;
                        if !eat_exp(&mut i) {
                            return Err("expected at least one digit in exponent".into());
                        }
                    }
                }
            }
            b'e' | b'E' => {
                i += 1;
                is_float = true;
                if !eat_exp(&mut i) {
                    return Err("expected at least one digit in exponent".into());
                }
            }
            _ => {}
        }
    }
    if is_float && base != 10 {
        return Err("float literal with a radix prefix is not supported".into());
    }
    if !is_float && (base == 2 || base == 8) {
        for &c in &b[digits_from..digits_to] {
            if c.is_ascii_digit() && (c - b'0') as u32 >= base {
                return Err(format!("invalid digit for a base {base} literal"));
            }
        }
    }
    if is_id_start(peek(i)) {
        while is_id_continue(peek(i)) {
            i += 1;
        }
    }
    Ok(i)
}

fn lex(s: &str) -> Result<Vec<Tok>, String> {
    let b = s.as_bytes();
    let mut i = 0;
    let mut toks = Vec::new();
    while i < b.len() {
        let c = b[i];
        if c == b' ' {
            i += 1;
        } else if is_id_start(c) {
            let j = (i..b.len()).find(|&j| !is_id_continue(b[j])).unwrap_or(b.len());
            toks.push(Tok::Ident(s[i..j].to_string()));
            i = j;
        } else if c.is_ascii_digit() {
            let j = lex_number(b, i)?;
            toks.push(Tok::Num(s[i..j].to_string()));
            i = j;
        } else if b"+-/~.,@".contains(&c) {
            if c == b'/' && (b.get(i + 1) == Some(&b'/') || b.get(i + 1) == Some(&b'*')) {
                return Err("comment".into());
            }
            toks.push(Tok::Punct(c as char));
            i += 1;
        } else {
            return Err(format!("character {:?} outside the modelled alphabet", c as char));
        }
    }
    Ok(toks)
}

/// the text is exactly one number literal for rustc
fn single_number(s: &str) -> bool {
    !s.is_empty() && s.as_bytes()[0].is_ascii_digit() && lex_number(s.as_bytes(), 0) == Ok(s.len())
}

// ------------------------------------------------------------------------------------------------
// generator: everything is a pure function of one u64 drawn by the proptest strategy
// ------------------------------------------------------------------------------------------------

struct G(SplitMix);
impl G {
    fn below(&mut self, n: u64) -> u64 {
        self.0.below(n)
    }
    fn chance(&mut self, pct: u64) -> bool {
        self.0.below(100) < pct
    }
    fn range(&mut self, lo: u64, hi: u64) -> u64 {
        lo + self.0.below(hi - lo + 1)
    }
    fn pick<T: Clone>(&mut self, v: &[T]) -> T {
        v[self.0.below(v.len() as u64) as usize].clone()
    }
    fn bits(&mut self, bits: u64) -> BigUint {
        // exactly `bits` bits
        if bits == 0 {
            return BigUint::zero();
        }
        let words = (bits as usize + 63) / 64;
        let w: Vec<u64> = (0..words).map(|_| self.0.next()).collect();
        let mut v = words_to_big(&w) & ((BigUint::one() << bits) - BigUint::one());
        v |= BigUint::one() << (bits - 1);
        v
    }
}

fn p2(k: u64) -> BigUint {
    BigUint::one() << k
}

/// magnitudes on both sides of the code-generation thresholds (32 bits: const path; 64/128 bits:
/// one and two words on either word size; whole bytes and words: `quote_words` padding)
fn mag(g: &mut G, max_bits: u64) -> BigUint {
    loop {
        let one = BigUint::one();
        let v = match g.below(27) {
            0 => BigUint::zero(),
            1 => one,
            2 => BigUint::from(g.below(1 << 16)),
            3 => {
                let n = g.range(1, 32);
                g.bits(n)
            }
            4 => p2(32) - one,
            5 => p2(32),
            6 => p2(32) + one,
            7 => {
                let n = g.range(33, 64);
                g.bits(n)
            }
            8 => p2(64) - one,
            9 => p2(64),
            10 => p2(64) + one,
            11 => {
                let n = g.range(65, 128);
                g.bits(n)
            }
            12 => p2(128) - one,
            13 => p2(128),
            14 => p2(128) + one,
            15 => p2(192),
            16 => {
                if g.chance(50) {
                    p2(192) - one
                } else {
                    p2(192) + one
                }
            }
            17 => {
                let n = g.range(3, 6) as usize;
                let p = g.below(gen::N_PATTERNS as u64) as u8;
                words_to_big(&gen::expand(n, p, g.0.next()))
            }
            18 => {
                let p = g.below(gen::N_PATTERNS as u64) as u8;
                words_to_big(&gen::expand(40, p, g.0.next()))
            }
            19 => {
                let k = 8 * g.range(1, 33);
                match g.below(3) {
                    0 => p2(k) - one,
                    1 => p2(k),
                    _ => p2(k) + one,
                }
            }
            20 => {
                let n = g.range(1, 300);
                g.bits(n)
            }
            21 => g.pick(&[p2(31), p2(31) - &one, p2(31) + &one, p2(33), p2(63), p2(65) - &one, p2(96), p2(96) - &one]),
            22 => {
                let n = 8 * g.range(4, 40) + g.range(1, 7);
                g.bits(n)
            }
            23 => p2(32) - BigUint::from(g.range(1, 1000)),
            24 => p2(32) + BigUint::from(g.range(1, 1000)),
            25 => g.bits(32),
            _ => g.bits(33),
        };
        if v.bits() <= max_bits {
            return v;
        }
    }
}

fn size_label(v: &BigUint) -> &'static str {
    match v.bits() {
        0 => "magnitude: 0",
        1..=31 => "magnitude: 1-31 bits",
        32 => "magnitude: exactly 32 bits (last const value)",
        33 => "magnitude: exactly 33 bits (first non-const value)",
        34..=64 => "magnitude: 34-64 bits",
        65..=128 => "magnitude: 65-128 bits",
        129..=192 => "magnitude: 129-192 bits",
        193..=1024 => "magnitude: 193-1024 bits",
        _ => "magnitude: > 1024 bits (40 words)",
    }
}

fn hexc(v: &BigUint) -> String {
    format!("0x{}", v.to_str_radix(16))
}
fn canon_int(neg: bool, v: &BigUint) -> String {
    if neg && !v.is_zero() {
        format!("-{}", hexc(v))
    } else {
        hexc(v)
    }
}

/// digits of `v` in `radix` with the decorations the grammar allows: letter case, leading zeros,
/// underscores inside and at the end (never in front: that is the token-shaping `_`)
fn digit_text(g: &mut G, v: &BigUint, radix: u32, labels: &mut Vec<String>) -> String {
    let s = v.to_str_radix(radix);
    let mut cs: Vec<char> = match g.below(4) {
        0 | 1 => s.chars().collect(),
        2 => s.to_ascii_uppercase().chars().collect(),
        _ => s.chars().map(|c| if g.chance(50) { c.to_ascii_uppercase() } else { c }).collect(),
    };
    if g.chance(25) {
        let n = g.range(1, 3) as usize;
        for _ in 0..n {
            cs.insert(0, '0');
        }
        labels.push("text: leading zeros".into());
    }
    match g.below(7) {
        0..=3 => {}
        4 => {
            let k = g.pick(&[3usize, 4, 8]);
            let mut out = Vec::new();
            for (i, c) in cs.iter().enumerate() {
                if i > 0 && (cs.len() - i) % k == 0 {
                    out.push('_');
                }
                out.push(*c);
            }
            cs = out;
            labels.push("text: underscores".into());
        }
        5 => {
            for _ in 0..g.range(1, 3) {
                let p = g.range(1, cs.len() as u64) as usize;
                cs.insert(p, '_');
            }
            labels.push("text: underscores".into());
        }
        _ => {
            cs.push('_');
            labels.push("text: underscores".into());
        }
    }
    cs.into_iter().collect()
}

/// make a digit run that is not a decimal literal reach the macro as one token: an identifier if
/// it starts with a letter, a literal with suffix if rustc lexes it as one, else the documented
/// leading underscore
fn shape(g: &mut G, text: String, labels: &mut Vec<String>) -> String {
    let b = text.as_bytes();
    let reads_as_prefix = text.starts_with("0b") || text.starts_with("0o") || text.starts_with("0x");
    if is_id_start(b[0]) {
        labels.push("token: identifier".into());
        if g.chance(12) {
            labels.push("token: leading underscore".into());
            return format!("_{text}");
        }
        text
    } else if single_number(&text) {
        if text.bytes().any(|c| c.is_ascii_alphabetic()) {
            labels.push("token: number literal with letters (suffix / exponent / prefix reading)".into());
        }
        if g.chance(12) {
            labels.push("token: leading underscore".into());
            return format!("_{text}");
        }
        let _ = reads_as_prefix;
        text
    } else {
        labels.push("token: leading underscore (needed: rustc would reject the bare digits)".into());
        format!("_{text}")
    }
}

fn radix_n(g: &mut G) -> u32 {
    if g.chance(45) {
        g.pick(&[2u32, 8, 10, 16, 32, 36, 3, 7, 15, 35])
    } else {
        g.range(2, 36) as u32
    }
}

/// integer text in one of the three radix notations; returns (token text, radix for the run-time parser)
/// form: 0 decimal, 1 radix prefix, 2 `base N` (the caller appends the suffix)
fn int_text(g: &mut G, v: &BigUint, form: u8, n: u32, labels: &mut Vec<String>) -> String {
    match form {
        0 => digit_text(g, v, 10, labels),
        1 => {
            let p = match n {
                2 => "0b",
                8 => "0o",
                _ => "0x",
            };
            format!("{p}{}", digit_text(g, v, n, labels))
        }
        _ => {
            let t = digit_text(g, v, n, labels);
            shape(g, t, labels)
        }
    }
}

fn sign_text(g: &mut G, s: u8) -> String {
    let t = match s {
        1 => "-",
        2 => "+",
        _ => "",
    };
    if !t.is_empty() && g.chance(20) {
        format!("{t} ")
    } else {
        t.to_string()
    }
}

fn squeeze(s: &str) -> String {
    s.chars().filter(|c| *c != ' ').collect()
}

fn base_lit(mac: &str) -> Lit {
    Lit { mac: mac.to_string(), tokens: String::new(), pos: 0, expect: MUST, denotes: true, text: String::new(), radix: 0, want: String::new(), prec: -1, alt: -1, prec_rt: false, labels: vec![], nontrivial: false }
}

const KEYWORD_DIGITS: [&str; 56] = [
    "as", "do", "fn", "if", "in", "box", "dyn", "for", "let", "mod", "mut", "pub", "ref", "use", "try", "else", "enum", "impl", "loop", "move", "self", "Self", "true", "type", "async", "await", "break", "const", "crate", "false", "match", "super", "trait", "union", "while",
    "yield", "static", "struct", "unsafe", "return", "typeof", "abstract", "continue", "base", "r", "b", "br", "c", "cr", "rb", "x", "o", "e5", "E5", "b1", "f32",
];

fn int_lit(g: &mut G, signed: bool, stat: bool) -> Lit {
    let mac = format!("{}{}", if stat { "static_" } else { "" }, if signed { "ibig" } else { "ubig" });
    let mut l = base_lit(&mac);
    let mut v = mag(g, 2600);
    let s = if signed {
        match g.below(100) {
            0..=44 => 0,
            45..=89 => 1,
            _ => 2,
        }
    } else {
        0
    };
    let form = match g.below(10) {
        0..=2 => 0u8,
        3..=5 => 1,
        _ => 2,
    };
    let mut n = match form {
        0 => 10,
        1 => g.pick(&[2u32, 8, 16, 16]),
        _ => radix_n(g),
    };
    let mut keyword = None;
    if form == 2 && g.chance(6) {
        // digit runs that are Rust keywords or literal prefixes: still one identifier token for a macro
        let k = g.pick(&KEYWORD_DIGITS);
        let min = k.chars().map(|c| c.to_digit(36).unwrap() + 1).max().unwrap();
        n = if g.chance(50) { 36 } else { g.range(min as u64, 36) as u32 };
        v = BigUint::parse_bytes(k.as_bytes(), n).unwrap();
        keyword = Some(k.to_string());
        l.labels.push("token: identifier that is a Rust keyword / literal prefix".into());
    } else if form == 2 && n > 10 && g.chance(35) {
        // most significant digit >= 10: the digit run starts with a letter
        let k = v.to_str_radix(n).len() as u32;
        let d = g.range(10, n as u64 - 1);
        v += BigUint::from(d) * num_traits::pow(BigUint::from(n), k as usize);
        if v.bits() > 2600 {
            v = BigUint::from(d);
        }
    }
    l.labels.push(size_label(&v).into());
    let body = match &keyword {
        Some(k) => k.clone(),
        None => int_text(g, &v, form, n, &mut l.labels),
    };
    let sg = sign_text(g, s);
    l.tokens = match form {
        2 => format!("{sg}{body} base {n}"),
        _ => format!("{sg}{body}"),
    };
    l.text = squeeze(&format!("{sg}{body}"));
    l.radix = match form {
        0 => {
            if g.chance(50) {
                0
            } else {
                10
            }
        }
        1 => 0,
        _ => n,
    };
    l.labels.push(match form {
        0 => "radix: decimal".into(),
        1 => format!("radix: prefix {}", &body[..2]),
        _ => format!("radix: base {n}"),
    });
    match s {
        1 => l.labels.push("sign: -".into()),
        2 => {
            l.labels.push("sign: + (not in the macro docs)".into());
            l.expect = MAY;
        }
        _ => {}
    }
    l.want = canon_int(s == 1, &v);
    l.nontrivial = v.bits() > 32;
    if stat {
        l.labels.push(if v.bits() > 32 { "codegen: static word array".into() } else { "codegen: static word array of a <= 32-bit value".into() });
        if g.chance(30) {
            l.pos = 2;
            l.expect = MAY;
            l.labels.push("position: static item (not promised by the docs)".into());
        }
    } else if v.bits() <= 32 {
        l.labels.push("codegen: const expression (<= 32 bits)".into());
        if g.chance(50) {
            l.pos = 1;
            l.labels.push("position: const item".into());
        }
    } else {
        l.labels.push("codegen: from_le_bytes".into());
    }
    l
}

// ---- floats --------------------------------------------------------------------------------------

fn insert_underscores(g: &mut G, s: &str, allow_front: bool) -> String {
    let mut cs: Vec<char> = s.chars().collect();
    if cs.is_empty() {
        return String::new();
    }
    for _ in 0..g.range(1, 2) {
        let lo = if allow_front { 0 } else { 1 };
        let p = g.range(lo, cs.len() as u64) as usize;
        cs.insert(p, '_');
    }
    cs.into_iter().collect()
}

/// kind: 0 binary digits (fbig), 1 hexadecimal with 0x (fbig), 2 decimal (dbig)
fn float_lit(g: &mut G, kind: u8, stat: bool) -> Lit {
    let mac = format!("{}{}", if stat { "static_" } else { "" }, if kind == 2 { "dbig" } else { "fbig" });
    let mut l = base_lit(&mac);
    let (drad, base, per_digit, max_bits) = match kind {
        0 => (2u32, 2u32, 1i64, 400u64),
        1 => (16, 2, 4, 2600),
        _ => (10, 10, 1, 2600),
    };
    let s = mag(g, max_bits);
    let mut d = s.to_str_radix(drad);
    if kind == 1 {
        d = d.chars().map(|c| if g.chance(30) { c.to_ascii_uppercase() } else { c }).collect();
    }
    if g.chance(30) {
        d = format!("{}{d}", "0".repeat(g.range(1, 3) as usize));
        l.labels.push("text: leading zeros (count towards the precision)".into());
    }
    if g.chance(30) {
        d = format!("{d}{}", "0".repeat(g.range(1, 4) as usize));
        l.labels.push("text: trailing zeros (count towards the precision)".into());
    }
    // where the radix point goes
    let n = d.len();
    let mut undocumented = false;
    let (mut int, mut frac): (String, Option<String>) = match g.below(21) {
        20 => {
            // FromStr: "either aaa or bbb can be omitted"; the macro docs always write an integer part
            undocumented = true;
            (String::new(), Some(d.clone()))
        }
        0..=3 | 10..=13 => (d.clone(), None),
        4 => (d.clone(), Some(String::new())),
        5 | 15 => ("0".to_string(), Some(d.clone())),
        14 => (d.clone(), Some(String::new())),
        _ => {
            if n >= 2 {
                let k = g.range(1, n as u64 - 1) as usize;
                (d[..k].to_string(), Some(d[k..].to_string()))
            } else {
                (d.clone(), None)
            }
        }
    };
    l.labels.push(match &frac {
        None => "float: no radix point".into(),
        Some(f) if f.is_empty() => "float: radix point, empty fraction".into(),
        Some(_) => "float: radix point with fraction".into(),
    });
    let ndigits = (int.len() + frac.as_ref().map_or(0, |f| f.len())) as i64;
    let frac_digits = frac.as_ref().map_or(0, |f| f.len()) as i64;
    if !int.is_empty() && g.chance(20) {
        int = insert_underscores(g, &int, false);
        l.labels.push("text: underscores".into());
    }
    if let Some(f) = &frac {
        if !f.is_empty() && g.chance(20) {
            frac = Some(insert_underscores(g, f, true));
            l.labels.push("text: underscores".into());
        }
    }
    // exponent
    let exp: Option<(char, String, i64)> = if g.chance(55) {
        let e: i64 = match g.below(10) {
            0 => 0,
            1..=4 => g.range(1, 40) as i64,
            5 | 6 => g.range(41, 5000) as i64,
            7 => 100000,
            // exponents around the widths a code generator may narrow to (i16, i32, u32) and beyond
            8 => g.pick(&[32767i64, 32768, 65535, 65536, (1 << 31) - 1, 1 << 31, (1 << 31) + 1, (1 << 32) - 1, 1 << 32, (1 << 32) + 1, 1 << 40]),
            _ => g.range(100001, 5_000_000_000) as i64,
        };
        if e > 100000 {
            l.labels.push("float: exponent beyond 32 bits or near a 16/32-bit boundary".into());
        }
        let neg = g.chance(50);
        let e = if neg { -e } else { e };
        let sg = if neg {
            "-"
        } else if g.chance(20) {
            "+"
        } else {
            ""
        };
        let digits = if g.chance(15) { format!("0{}", e.abs()) } else { format!("{}", e.abs()) };
        let marker = if g.chance(8) {
            '@'
        } else {
            match kind {
                0 => g.pick(&['B', 'b']),
                1 => g.pick(&['p', 'P']),
                _ => g.pick(&['e', 'E']),
            }
        };
        Some((marker, format!("{sg}{digits}"), e))
    } else {
        None
    };
    let sign = match g.below(100) {
        0..=49 => 0u8,
        50..=91 => 1,
        _ => 2,
    };
    let assemble = |int: &str, frac: &Option<String>, exp: &Option<(char, String, i64)>, us: bool| -> String {
        let mut t = String::new();
        if us {
            t.push('_');
        }
        if kind == 1 {
            t.push_str("0x");
        }
        t.push_str(int);
        if let Some(f) = frac {
            t.push('.');
            t.push_str(f);
        }
        if let Some((m, e, _)) = exp {
            t.push(*m);
            t.push_str(e);
        }
        t
    };
    // candidates in order of preference; the first one rustc's lexer lets through is used
    let mut cands: Vec<(String, String, &str)> = Vec::new(); // (tokens, run-time text, label)
    let plain = assemble(&int, &frac, &exp, false);
    cands.push((plain.clone(), plain.clone(), "float: plain tokens"));
    if kind == 1 {
        let us = assemble(&int, &frac, &exp, true);
        // the macro strips one leading underscore
        cands.push((us, plain.clone(), "float: leading underscore before 0x"));
        if let Some(f) = &frac {
            if !f.is_empty() && !f.starts_with('_') {
                let f2 = Some(format!("_{f}"));
                let t = assemble(&int, &f2, &exp, false);
                cands.push((t.clone(), t, "float: underscore after the radix point"));
            }
        }
        if g.chance(35) {
            cands.rotate_left(1);
        }
    }
    if kind == 0 {
        if let Some((m0, e, ev)) = &exp {
            let alt = Some((if *m0 == '@' { '@' } else { 'B' }, e.clone(), *ev));
            let t = assemble(&int, &frac, &alt, false);
            cands.push((t.clone(), t, "float: plain tokens"));
        }
    }
    let no_exp = assemble(&int, &frac, &None, kind == 1);
    let no_exp_rt = assemble(&int, &frac, &None, false);
    let mut chosen = None;
    for (t, rt, lab) in cands {
        if lex(&t).is_ok() {
            chosen = Some((t, rt, lab, exp.clone()));
            break;
        }
    }
    let (body, rt, lab, exp) = chosen.unwrap_or((no_exp, no_exp_rt, "float: exponent dropped (no lexable form)", None));
    l.labels.push(lab.into());
    if let Some((m, _, e)) = &exp {
        l.labels.push(format!("float: exponent marker {m}"));
        if *e < 0 {
            l.labels.push("float: negative exponent".into());
        }
    }
    let sg = sign_text(g, sign);
    l.tokens = format!("{sg}{body}");
    l.text = squeeze(&format!("{sg}{rt}"));
    if sign == 2 {
        l.expect = MAY;
        l.labels.push("sign: + (not in the macro docs)".into());
    }
    if sign == 1 {
        l.labels.push("sign: -".into());
    }
    if undocumented {
        l.expect = MAY;
        l.labels.push("float: no integer part (FromStr grammar, not in the macro docs)".into());
    }
    if matches!(exp, Some(('@', _, _))) {
        l.expect = MAY;
        l.labels.push("float: @ exponent (FromStr grammar, not in the macro docs)".into());
    }
    // the value that was written
    let mant = BigUint::parse_bytes(d.as_bytes(), drad).expect("digits");
    let mut e = exp.as_ref().map_or(0, |x| x.2) - frac_digits * per_digit;
    let mut m = mant.clone();
    if m.is_zero() {
        e = 0;
    } else if base == 2 {
        let tz = m.trailing_zeros().unwrap();
        m >>= tz;
        e += tz as i64;
    } else {
        let ten = BigUint::from(10u32);
        while (&m % &ten).is_zero() {
            m /= &ten;
            e += 1;
        }
    }
    l.want = format!("{}*{base}^{e}", canon_int(sign == 1, &m));
    l.labels.push(format!("significand {}", &size_label(&m)["magnitude: ".len()..]));
    let written = ndigits * per_digit;
    let small = m.bits() <= 32;
    if m.is_zero() {
        // macros/tests pin precision 0 for a zero literal, the macro docs say "length of digits"
        l.prec = written;
        l.alt = 0;
        l.labels.push("precision: zero literal (0 or written digits accepted)".into());
    } else if stat && !small {
        // static docs: "the generated float number will have a unlimited precision"
        l.prec = 0;
        l.labels.push("precision: static word array => unlimited, as documented".into());
    } else if stat {
        l.prec = written;
        l.alt = 0;
        l.labels.push("precision: static, significand <= 32 bits (docs say unlimited, code keeps the digits; both accepted)".into());
    } else {
        l.prec = written;
        l.prec_rt = true;
        l.labels.push("precision: written digits".into());
    }
    if stat {
        l.labels.push(if small { "codegen: static of a const expression".into() } else { "codegen: static word array".into() });
        if g.chance(30) {
            l.pos = 2;
            l.expect = MAY;
            l.labels.push("position: static item (not promised by the docs)".into());
        }
    } else if small {
        l.labels.push("codegen: const expression (<= 32 bits)".into());
        if g.chance(50) {
            l.pos = 1;
            l.labels.push("position: const item".into());
        }
    } else {
        l.labels.push("codegen: from_le_bytes".into());
    }
    l.labels.push(match kind {
        0 => "radix: binary digits".into(),
        1 => "radix: hexadecimal digits, 0x".into(),
        _ => "radix: decimal".into(),
    });
    l.nontrivial = true;
    l
}

// ---- ratios --------------------------------------------------------------------------------------

fn ratio_lit(g: &mut G, stat: bool) -> Lit {
    let mut l = base_lit(if stat { "static_rbig" } else { "rbig" });
    let relaxed = g.chance(40);
    let abits = if g.chance(70) { 200 } else { 2600 };
    let a = mag(g, abits);
    let bbits = if g.chance(70) { 200 } else { 2600 };
    let mut b = mag(g, bbits);
    if b.is_zero() {
        b = BigUint::one();
    }
    let f = match g.below(8) {
        0..=2 => BigUint::one(),
        3 => p2(g.range(1, 70)),
        4 => BigUint::from(g.pick(&[3u32, 5, 6, 10, 0xffff, 12])),
        5 => BigUint::from(g.range(2, 1 << 20)),
        6 => mag(g, 130) + BigUint::one(),
        _ => p2(g.range(1, 8)) * BigUint::from(g.range(1, 99)),
    };
    if !f.is_one() {
        l.labels.push("ratio: common factor written".into());
    }
    let omit_den = g.chance(12);
    let (num, den) = if omit_den { (a.clone(), BigUint::one()) } else { (&a * &f, &b * &f) };
    let form = match g.below(10) {
        0..=3 => 0u8,
        4..=6 => 1,
        _ => 2,
    };
    let n = match form {
        0 => 10,
        1 => g.pick(&[2u32, 8, 16, 16]),
        _ => radix_n(g),
    };
    let ns = match g.below(100) {
        0..=49 => 0u8,
        50..=91 => 1,
        _ => 2,
    };
    let ds = if omit_den {
        0
    } else {
        match g.below(100) {
            0..=79 => 0u8,
            80..=94 => 1,
            _ => 2,
        }
    };
    let nt = int_text(g, &num, form, n, &mut l.labels);
    let mut tokens = String::new();
    if relaxed {
        tokens.push('~');
        if g.chance(20) {
            tokens.push(' ');
        }
    }
    let nsg = sign_text(g, ns);
    tokens.push_str(&nsg);
    tokens.push_str(&nt);
    let mut text = squeeze(&format!("{nsg}{nt}"));
    if !omit_den {
        // "the prefix of the denominator can be omitted": then its digits are shaped like `base N` digits
        let dt = if form == 1 && g.chance(40) {
            l.labels.push("ratio: denominator without the prefix".into());
            let t = digit_text(g, &den, n, &mut l.labels);
            if t.starts_with("0b") || t.starts_with("0o") || t.starts_with("0x") {
                // would be read as a prefix: the documented underscore prevents that
                format!("_{t}")
            } else {
                shape(g, t, &mut l.labels)
            }
        } else {
            int_text(g, &den, form, n, &mut l.labels)
        };
        let dsg = sign_text(g, ds);
        let sep = g.pick(&["/", " / ", "/ ", " /"]);
        tokens.push_str(sep);
        tokens.push_str(&dsg);
        tokens.push_str(&dt);
        text.push('/');
        text.push_str(&squeeze(&format!("{dsg}{dt}")));
    } else {
        l.labels.push("ratio: denominator omitted".into());
    }
    if form == 2 {
        tokens.push_str(&format!(" base {n}"));
        if omit_den {
            l.expect = MAY;
            l.labels.push("ratio: integer with base N (docs show base N only with a denominator)".into());
        }
    }
    l.tokens = tokens;
    l.text = text;
    l.radix = if form == 2 { n } else { 0 };
    l.labels.push(match form {
        0 => "radix: decimal".into(),
        1 => "radix: prefix".into(),
        _ => format!("radix: base {n}"),
    });
    if ns == 2 || ds == 2 {
        l.expect = MAY;
        l.labels.push("sign: + (not in the macro docs)".into());
    }
    if ds != 0 {
        l.expect = MAY;
        l.labels.push("ratio: signed denominator (macros/tests only)".into());
    }
    let neg = (ns == 1) != (ds == 1);
    // canonical form: RBig lowest terms, Relaxed without a common power of two
    let (rn, rd) = if num.is_zero() {
        (BigUint::zero(), BigUint::one())
    } else if relaxed {
        let z = num.trailing_zeros().unwrap().min(den.trailing_zeros().unwrap());
        (&num >> z, &den >> z)
    } else {
        let gg = num.gcd(&den);
        (&num / &gg, &den / &gg)
    };
    l.want = format!("{}/{}", canon_int(neg, &rn), hexc(&rd));
    l.labels.push(if relaxed { "ratio: ~ relaxed".into() } else { "ratio: canonical".into() });
    l.labels.push(format!("numerator {}", &size_label(&rn)["magnitude: ".len()..]));
    l.labels.push(format!("denominator {}", &size_label(&rd)["magnitude: ".len()..]));
    let small = rn.bits() <= 32 && rd.bits() <= 32;
    if stat {
        l.labels.push("codegen: static word arrays".into());
        if g.chance(30) {
            l.pos = 2;
            l.expect = MAY;
            l.labels.push("position: static item (not promised by the docs)".into());
        }
    } else if small {
        l.labels.push("codegen: const expression (both parts <= 32 bits)".into());
        if g.chance(50) {
            l.pos = 1;
            l.labels.push("position: const item".into());
        }
    } else {
        l.labels.push("codegen: from_parts of mixed const / from_le_bytes parts".into());
    }
    l.nontrivial = true;
    l
}

fn positive(seed: u64) -> Lit {
    let mut g = G(SplitMix(seed));
    for _ in 0..16 {
        let l = match g.below(24) {
            0..=3 => int_lit(&mut g, false, false),
            4..=6 => int_lit(&mut g, true, false),
            7..=8 => int_lit(&mut g, false, true),
            9..=10 => int_lit(&mut g, true, true),
            11..=12 => {
                let k = g.below(2) as u8;
                float_lit(&mut g, k, false)
            }
            13 => {
                let k = g.below(2) as u8;
                float_lit(&mut g, k, true)
            }
            14..=15 => float_lit(&mut g, 2, false),
            16 => float_lit(&mut g, 2, true),
            17..=20 => ratio_lit(&mut g, false),
            _ => ratio_lit(&mut g, true),
        };
        if let Ok(toks) = lex(&l.tokens) {
            let mut l = l;
            if g.chance(15) {
                // white space between tokens never matters; inside a token it would
                // juxtaposed tokens may fuse (`1` `.` `5`): keep the new spacing only if it lexes to the same tokens
                let mut spaced = String::new();
                let mut prev_val = false;
                for tk in &toks {
                    let (txt, is_val) = match tk {
                        Tok::Num(x) | Tok::Ident(x) => (x.clone(), true),
                        Tok::Punct(c) => (c.to_string(), false),
                    };
                    if !spaced.is_empty() && (g.chance(50) || (prev_val && is_val)) {
                        spaced.push(' ');
                    }
                    spaced.push_str(&txt);
                    prev_val = is_val;
                }
                if lex(&spaced).as_ref() == Ok(&toks) {
                    l.tokens = spaced;
                    l.labels.push("text: random white space between tokens".into());
                }
            }
            return l;
        }
    }
    let mut l = base_lit("ubig");
    l.tokens = "1".into();
    l.text = "1".into();
    l.want = "0x1".into();
    l.labels.push("generator fallback".into());
    l
}

// ---- literals outside the documented grammar -----------------------------------------------------

fn negative(seed: u64) -> Lit {
    let mut g = G(SplitMix(seed));
    let int_macs = ["ubig", "ibig", "static_ubig", "static_ibig"];
    let all_macs = ["ubig", "ibig", "static_ubig", "static_ibig", "fbig", "static_fbig", "dbig", "static_dbig", "rbig", "static_rbig"];
    let small = |g: &mut G| g.range(2, 99999);
    let mut l = base_lit("ubig");
    l.expect = FAIL;
    l.denotes = false;
    let class: &str;
    match g.below(24) {
        0 => {
            // a digit that does not exist in the radix given by `base N`
            let n = g.range(2, 35) as u32;
            let v = BigUint::from(small(&mut g));
            let mut t = v.to_str_radix(n);
            let bad = std::char::from_digit(g.range(n as u64, 35) as u32, 36).unwrap();
            let p = g.range(0, t.len() as u64) as usize;
            t.insert(p, bad);
            let t = if is_id_start(t.as_bytes()[0]) || single_number(&t) { t } else { format!("_{t}") };
            l.mac = g.pick(&int_macs).to_string();
            l.tokens = format!("{t} base {n}");
            class = "negative: digit >= N with base N";
        }
        1 => {
            let n = g.pick(&["0", "1", "37", "100", "4294967298", "256"]);
            l.mac = g.pick(&int_macs).to_string();
            l.tokens = format!("{} base {n}", small(&mut g));
            class = "negative: base outside 2..=36";
        }
        2 => {
            l.mac = g.pick(&["ubig", "static_ubig"]).to_string();
            l.tokens = format!("-{}", small(&mut g));
            class = "negative: minus sign on an unsigned macro";
        }
        3 => {
            // the docs of ubig! show no sign; the denotation would be the plain number
            let v = small(&mut g);
            l.mac = g.pick(&["ubig", "static_ubig"]).to_string();
            l.tokens = format!("+{v}");
            l.denotes = true;
            l.text = format!("{v}");
            l.radix = 10;
            l.want = hexc(&BigUint::from(v));
            class = "negative: plus sign on an unsigned macro";
        }
        4 => {
            l.mac = g.pick(&all_macs).to_string();
            l.tokens = g.pick(&["1 2", "12 34", "1, 2", "1 1 base 10", "0x1 0x2"]).to_string();
            class = "negative: two literals";
        }
        5 => {
            l.mac = g.pick(&all_macs).to_string();
            l.tokens = String::new();
            class = "negative: empty invocation";
        }
        6 => {
            l.mac = g.pick(&int_macs).to_string();
            l.tokens = g.pick(&["12 base", "base 10", "base", "12 base 10 base 10", "12 base 10 10", "12 bas 10", "12 base ten"]).to_string();
            class = "negative: malformed base clause";
        }
        7 => {
            l.mac = g.pick(&int_macs).to_string();
            let v = small(&mut g);
            l.tokens = g.pick(&[format!("{v}.5"), format!("{v}e3"), format!("{v}.0"), format!("0x{v:x}p3"), format!("{v}.")]);
            class = "negative: float form on an integer macro";
        }
        8 => {
            l.mac = g.pick(&int_macs).to_string();
            let v = small(&mut g) | 0xa0000;
            l.tokens = g.pick(&[format!("{v:x}"), format!("_{v:x}"), format!("{}z", v % 1000)]);
            class = "negative: letters without prefix or base";
        }
        9 => {
            // `0x10 base 16`: 'x' is not a hexadecimal digit; the natural reading would be 0x10
            let v = small(&mut g);
            l.mac = g.pick(&int_macs).to_string();
            let (t, n) = match g.below(3) {
                0 => (format!("0x{v:x}"), 16),
                1 => (format!("0o{v:o}"), 8),
                _ => (format!("0b{v:b}"), 2),
            };
            l.tokens = format!("{t} base {n}");
            l.denotes = true;
            l.text = t;
            l.radix = 0;
            l.want = hexc(&BigUint::from(v));
            class = "negative: radix prefix together with the same base N";
        }
        10 => {
            // "This macro only accepts binary or hexadecimal literals"
            let v = small(&mut g);
            let t = format!("{}", v);
            let t = if t.bytes().all(|c| c == b'0' || c == b'1') { format!("{t}2") } else { t };
            l.mac = g.pick(&["fbig", "static_fbig"]).to_string();
            l.tokens = g.pick(&[t.clone(), format!("{t}.5"), format!("-{t}.25"), format!("1.{t}")]);
            class = "negative: decimal digits in fbig!";
        }
        11 => {
            let v = small(&mut g);
            l.mac = g.pick(&["dbig", "static_dbig"]).to_string();
            l.tokens = g.pick(&[format!("0x{v:x}"), format!("{v}.5p3"), format!("1.2.{v}"), format!("{v}e"), format!("{v}.5e-"), format!("{v}f"), format!("1.5 {v}")]);
            class = "negative: malformed decimal float";
        }
        12 => {
            l.mac = g.pick(&["fbig", "static_fbig", "dbig", "static_dbig"]).to_string();
            l.tokens = format!("{} base {}", g.pick(&["1.1", "101", "1.01e5"]), g.pick(&["2", "10", "16"]));
            class = "negative: base N on a float macro";
        }
        13 => {
            let v = small(&mut g);
            l.mac = g.pick(&["rbig", "static_rbig"]).to_string();
            l.tokens = g.pick(&[format!("{v}/0"), format!("~{v}/0"), format!("-{v}/0x0"), format!("{v}/00 base 7"), format!("0/0")]);
            class = "negative: zero denominator";
        }
        14 => {
            let v = small(&mut g);
            l.mac = g.pick(&["rbig", "static_rbig"]).to_string();
            l.tokens = g.pick(&[format!("{v}/2/3"), format!("/{v}"), format!("~"), format!("{v}/~3"), format!("{v}~/3"), format!("{v}/3 base 10/5"), format!("{v} 3")]);
            class = "negative: malformed fraction";
        }
        15 => {
            // a slash with nothing after it; RBig::from_str rejects "3/"
            let v = small(&mut g);
            l.mac = g.pick(&["rbig", "static_rbig"]).to_string();
            l.tokens = g.pick(&[format!("{v}/"), format!("~{v}/"), format!("-{v} /"), format!("0x{v:x}/")]);
            class = "negative: fraction bar without denominator";
        }
        16 => {
            let v = small(&mut g);
            l.mac = g.pick(&["rbig", "static_rbig"]).to_string();
            l.tokens = g.pick(&[format!("0x{v:x}/0b11"), format!("{v}/0x5"), format!("0o7/0x{v:x}"), format!("~0b1/0o{v:o}")]);
            class = "negative: different radix prefixes in numerator and denominator";
        }
        17 => {
            let v = small(&mut g);
            l.mac = g.pick(&["rbig", "static_rbig"]).to_string();
            l.tokens = g.pick(&[format!("{v}.5/2"), format!("{v}/2.5"), format!("1e3/{v}")]);
            class = "negative: float inside a fraction";
        }
        18 => {
            // two sign tokens: as a Rust expression `--5` is 5; no reading makes this a documented literal
            let v = small(&mut g);
            l.mac = g.pick(&["ibig", "static_ibig", "rbig", "static_rbig", "fbig", "dbig"]).to_string();
            let d = if l.mac.contains("fbig") { format!("{v:b}") } else { format!("{v}") };
            l.tokens = g.pick(&[format!("--{d}"), format!("- -{d}"), format!("-+{d}"), format!("+-{d}"), format!("++{d}")]);
            class = "negative: two sign tokens";
        }
        19 => {
            let v = small(&mut g);
            l.mac = g.pick(&int_macs).to_string();
            l.tokens = g.pick(&[format!("~{v}"), format!("{v}/3"), format!("{v}-"), format!("{v}-1"), format!("{v}+1")]);
            class = "negative: fraction / operator tokens on an integer macro";
        }
        20 => {
            let v = small(&mut g);
            l.mac = g.pick(&all_macs).to_string();
            l.tokens = g.pick(&[format!("\"{v}\""), format!("({v})"), format!("[{v}]"), format!("'1'"), format!("{{{v}}}"), "true".to_string()]);
            class = "negative: not a number token";
        }
        21 => {
            l.mac = g.pick(&int_macs).to_string();
            l.tokens = g.pick(&["_ base 10", "__ base 16", "_", "0x_", "0b", "___ base 36"]).to_string();
            class = "negative: no digits";
        }
        22 => {
            // digits the radix prefix does not have
            l.mac = g.pick(&int_macs).to_string();
            l.tokens = g.pick(&["0b102", "0o78", "0b2", "0o9_1", "0xfg", "0b1a"]).to_string();
            class = "negative: digit not valid for the radix prefix";
        }
        _ => {
            let v = small(&mut g);
            l.mac = g.pick(&["fbig", "static_fbig"]).to_string();
            l.tokens = g.pick(&[format!("0x{v:x}p"), format!("1.01b"), format!("0x1.8p3"), format!("1.1p3"), format!("_0x1g.8"), format!("1.1e5")]);
            class = "negative: malformed binary / hexadecimal float";
        }
    }
    l.labels.push(class.to_string());
    l.nontrivial = true;
    l
}

fn lit_strategy(neg_pct: u32) -> impl Strategy<Value = Lit> {
    (0u32..100, any::<u64>()).prop_map(move |(k, seed)| if k < neg_pct { negative(seed) } else { positive(seed) })
}

// ------------------------------------------------------------------------------------------------
// the generated programs
// ------------------------------------------------------------------------------------------------

/// `src/rt.rs` of every generated crate: reads values through raw words only
const RT_RS: &str = r##"#![allow(dead_code, deprecated)]
use core::str::FromStr;
use dashu::base::Sign;
use dashu::float::{round::mode::Zero, DBig, FBig};
use dashu::integer::{IBig, UBig, Word};
use dashu::rational::{RBig, Relaxed};

pub const STATIC: u32 = 1; // produced by a static_ macro
pub const NODENOTE: u32 = 2; // no value to compare with: print what was produced
pub const PREC_RT: u32 = 4; // precision must also equal the run-time parse

pub struct Spec<'a> {
    pub idx: usize,
    pub kind: u8,
    pub text: &'a str,
    pub radix: u32,
    pub want: &'a str,
    pub prec: i64,
    pub alt: i64,
    pub flags: u32,
}

fn hex(words: &[Word]) -> String {
    let mut n = words.len();
    while n > 0 && words[n - 1] == 0 {
        n -= 1;
    }
    if n == 0 {
        return "0x0".into();
    }
    let w = (Word::BITS / 4) as usize;
    let mut s = format!("0x{:x}", words[n - 1]);
    for i in (0..n - 1).rev() {
        s.push_str(&format!("{:0w$x}", words[i], w = w));
    }
    s
}
fn cu(v: &UBig) -> String {
    hex(v.as_words())
}
fn ci(v: &IBig) -> String {
    let (s, w) = v.as_sign_words();
    let h = hex(w);
    if s == Sign::Negative {
        format!("-{h}")
    } else {
        h
    }
}
fn mod10(words: &[Word]) -> u64 {
    // 2^32 = 2^64 = 6 (mod 10), 6*6 = 6 (mod 10)
    let mut r = 0u64;
    for (i, w) in words.iter().enumerate() {
        let d = (*w as u64) % 10;
        r += if i == 0 { d } else { 6 * d };
    }
    r % 10
}

/// the documented storage layout (integer/src/repr.rs, `capacity` field)
fn layout(idx: usize, what: &str, raw: (isize, usize, bool, Vec<Word>), flags: u32) {
    let (cap, len, inline, words) = raw;
    let mut bad = Vec::new();
    if inline != (len <= 2) {
        bad.push(format!("inline = {inline} with {len} words"));
    }
    if inline {
        if words.len() != 2 {
            bad.push("inline value without two inline words".to_string());
        } else {
            match len {
                0 => {
                    if words[0] != 0 || words[1] != 0 {
                        bad.push("zero with non-zero inline words".into());
                    }
                    if cap != 1 {
                        bad.push(format!("zero with capacity field {cap} (must be +1)"));
                    }
                }
                1 => {
                    if words[0] == 0 || words[1] != 0 || cap.unsigned_abs() != 1 {
                        bad.push(format!("one-word value stored as {words:x?} with capacity field {cap}"));
                    }
                }
                _ => {
                    if words[1] == 0 || cap.unsigned_abs() != 2 {
                        bad.push(format!("two-word value stored as {words:x?} with capacity field {cap}"));
                    }
                }
            }
        }
    } else {
        if len < 3 || words.len() != len {
            bad.push(format!("heap/static value with {len} words"));
        }
        if words.last() == Some(&0) {
            bad.push("top word is zero".into());
        }
        if cap.unsigned_abs() < len {
            bad.push(format!("capacity field {cap} below the length {len}"));
        }
        if flags & STATIC != 0 && cap.unsigned_abs() != len {
            bad.push(format!("static word array with capacity field {cap} != length {len}"));
        }
    }
    if !bad.is_empty() {
        println!("MISMATCH {idx} storage layout of the {what}: {}", bad.join("; "));
    }
}

pub trait Judge {
    fn judge(&self, s: &Spec);
}
impl<T: Judge> Judge for &T {
    fn judge(&self, s: &Spec) {
        (**self).judge(s)
    }
}
pub fn chk<T: Judge>(v: &T, s: Spec) {
    v.judge(&s)
}

fn kind_ok(s: &Spec, mine: u8, name: &str) {
    if s.flags & NODENOTE == 0 && s.kind != mine {
        println!("MISMATCH {} the macro produced a {name}, kind {} expected", s.idx, s.kind);
    }
}

fn compare(s: &Spec, got: &str, rt: Result<String, String>) {
    match rt {
        Ok(r) => {
            if r != got {
                println!("MISMATCH {} macro value {got} != run-time parse {r} of {:?} (radix {})", s.idx, s.text, s.radix);
            }
        }
        Err(e) => println!("MISMATCH {} macro accepted the literal (value {got}) but the run-time parser rejects {:?} (radix {}): {e}", s.idx, s.text, s.radix),
    }
    if !s.want.is_empty() && s.want != got {
        println!("MISMATCH {} macro value {got} != written value {}", s.idx, s.want);
    }
}

impl Judge for UBig {
    fn judge(&self, s: &Spec) {
        kind_ok(s, 0, "UBig");
        layout(s.idx, "value", self.__verif_repr(), s.flags);
        let got = cu(self);
        if s.flags & NODENOTE != 0 {
            println!("VALUE {} {got}", s.idx);
            return;
        }
        let rt = if s.radix == 0 { UBig::from_str_with_radix_prefix(s.text).map(|p| p.0) } else { UBig::from_str_radix(s.text, s.radix) };
        compare(s, &got, rt.map(|v| cu(&v)).map_err(|e| format!("{e:?}")));
        if s.radix == 10 {
            match UBig::from_str(s.text) {
                Ok(v) if cu(&v) == got => {}
                other => println!("MISMATCH {} macro value {got} != FromStr {:?}", s.idx, other.map(|v| cu(&v))),
            }
        }
    }
}
impl Judge for IBig {
    fn judge(&self, s: &Spec) {
        kind_ok(s, 1, "IBig");
        layout(s.idx, "value", self.__verif_repr(), s.flags);
        let got = ci(self);
        if s.flags & NODENOTE != 0 {
            println!("VALUE {} {got}", s.idx);
            return;
        }
        let rt = if s.radix == 0 { IBig::from_str_with_radix_prefix(s.text).map(|p| p.0) } else { IBig::from_str_radix(s.text, s.radix) };
        compare(s, &got, rt.map(|v| ci(&v)).map_err(|e| format!("{e:?}")));
        if s.radix == 10 {
            match IBig::from_str(s.text) {
                Ok(v) if ci(&v) == got => {}
                other => println!("MISMATCH {} macro value {got} != FromStr {:?}", s.idx, other.map(|v| ci(&v))),
            }
        }
    }
}

fn float(s: &Spec, base: u32, sig: &IBig, exp: isize, prec: usize, rt: Result<(String, usize), String>) {
    layout(s.idx, "significand", sig.__verif_repr(), s.flags);
    let got = format!("{}*{base}^{exp}", ci(sig));
    let (_, w) = sig.as_sign_words();
    if w.is_empty() {
        if exp != 0 {
            println!("MISMATCH {} zero significand with exponent {exp}", s.idx);
        }
    } else if (base == 2 && w[0] & 1 == 0) || (base == 10 && mod10(w) == 0) {
        println!("MISMATCH {} significand of {got} is a multiple of the base (not normalised)", s.idx);
    }
    if s.flags & NODENOTE != 0 {
        println!("VALUE {} {got} prec={prec}", s.idx);
        return;
    }
    let rt_prec = rt.as_ref().ok().map(|p| p.1);
    compare(s, &got, rt.map(|p| p.0));
    let p = prec as i64;
    if s.prec >= 0 && p != s.prec && p != s.alt {
        println!("MISMATCH {} precision {p} of {got}, the literal has {} digits{}", s.idx, s.prec, if s.alt >= 0 { format!(" ({} also accepted)", s.alt) } else { String::new() });
    }
    if s.flags & PREC_RT != 0 {
        if let Some(r) = rt_prec {
            if r != prec {
                println!("MISMATCH {} precision {prec} != precision {r} of the run-time parse of {:?}", s.idx, s.text);
            }
        }
    }
}
impl Judge for FBig<Zero, 2> {
    fn judge(&self, s: &Spec) {
        kind_ok(s, 2, "FBig<Zero, 2>");
        let rt = FBig::<Zero, 2>::from_str(s.text).map(|r| (format!("{}*2^{}", ci(r.repr().significand()), r.repr().exponent()), r.precision())).map_err(|e| format!("{e:?}"));
        float(s, 2, self.repr().significand(), self.repr().exponent(), self.precision(), rt);
    }
}
impl Judge for DBig {
    fn judge(&self, s: &Spec) {
        kind_ok(s, 3, "DBig");
        let rt = DBig::from_str(s.text).map(|r| (format!("{}*10^{}", ci(r.repr().significand()), r.repr().exponent()), r.precision())).map_err(|e| format!("{e:?}"));
        float(s, 10, self.repr().significand(), self.repr().exponent(), self.precision(), rt);
    }
}

fn ratio(s: &Spec, relaxed: bool, num: &IBig, den: &UBig, rt: Result<String, String>) {
    layout(s.idx, "numerator", num.__verif_repr(), s.flags);
    layout(s.idx, "denominator", den.__verif_repr(), s.flags);
    let got = format!("{}/{}", ci(num), cu(den));
    if den.as_words().is_empty() {
        println!("MISMATCH {} denominator is zero: {got}", s.idx);
    }
    let (_, nw) = num.as_sign_words();
    if !nw.is_empty() && nw[0] & 1 == 0 && !den.as_words().is_empty() && den.as_words()[0] & 1 == 0 {
        println!("MISMATCH {} numerator and denominator of {got} are both even", s.idx);
    }
    if nw.is_empty() && cu(den) != "0x1" {
        println!("MISMATCH {} zero is not stored as 0/1: {got}", s.idx);
    }
    if s.flags & NODENOTE != 0 {
        println!("VALUE {} {got}", s.idx);
        return;
    }
    if relaxed {
        // the exact parts of a Relaxed are only pinned by the run-time parser
        let want = s.want;
        let s2 = Spec { idx: s.idx, kind: s.kind, text: s.text, radix: s.radix, want: "", prec: -1, alt: -1, flags: s.flags };
        compare(&s2, &got, rt);
        if !want.is_empty() && want != got {
            println!("NOTE {} Relaxed parts {got}, generator expected {want}", s.idx);
        }
    } else {
        compare(s, &got, rt);
    }
}
impl Judge for RBig {
    fn judge(&self, s: &Spec) {
        kind_ok(s, 4, "RBig");
        let rt = if s.radix == 0 { RBig::from_str_with_radix_prefix(s.text).map(|p| p.0) } else { RBig::from_str_radix(s.text, s.radix) };
        ratio(s, false, self.numerator(), self.denominator(), rt.map(|r| format!("{}/{}", ci(r.numerator()), cu(r.denominator()))).map_err(|e| format!("{e:?}")));
    }
}
impl Judge for Relaxed {
    fn judge(&self, s: &Spec) {
        kind_ok(s, 5, "Relaxed");
        let rt = if s.radix == 0 { Relaxed::from_str_with_radix_prefix(s.text).map(|p| p.0) } else { Relaxed::from_str_radix(s.text, s.radix) };
        ratio(s, true, self.numerator(), self.denominator(), rt.map(|r| format!("{}/{}", ci(r.numerator()), cu(r.denominator()))).map_err(|e| format!("{e:?}")));
    }
}

pub fn run(fs: &[(usize, fn())]) {
    std::panic::set_hook(Box::new(|_| {}));
    for (i, f) in fs {
        println!("START {i}");
        match std::panic::catch_unwind(*f) {
            Ok(()) => println!("DONE {i}"),
            Err(e) => {
                let m = e.downcast_ref::<&str>().map(|s| s.to_string()).or_else(|| e.downcast_ref::<String>().cloned()).unwrap_or_default();
                println!("PANIC {i} {}", m.replace('\n', " "));
            }
        }
    }
}
"##;

fn repo_path() -> String {
    std::env::var("DV_REPO").unwrap_or_else(|_| "/repo".to_string())
}
fn gen_root() -> String {
    std::env::var("DV_MACROGEN").unwrap_or_else(|_| "/verif/target/macrogen".to_string())
}

fn cargo_toml(name: &str) -> String {
    format!(
        "[package]\nname = \"{name}\"\nversion = \"0.0.0\"\nedition = \"2021\"\n\n[dependencies]\ndashu = {{ path = \"{}\" }}\n\n[workspace]\n\n[profile.release]\nopt-level = 0\ndebug = 0\ndebug-assertions = true\noverflow-checks = true\nincremental = false\ncodegen-units = 16\n\n[profile.release.build-override]\nopt-level = 0\ndebug-assertions = true\n\n[lints.rust]\nunexpected_cfgs = {{ level = \"allow\" }}\n",
        repo_path()
    )
}

fn write_if_changed(path: &str, content: &str) {
    if std::fs::read_to_string(path).ok().as_deref() != Some(content) {
        std::fs::write(path, content).unwrap_or_else(|e| infra(&format!("cannot write {path}: {e}")));
    }
}

fn prepare_crate(dir: &str, name: &str) {
    let _ = std::fs::create_dir_all(format!("{dir}/src"));
    write_if_changed(&format!("{dir}/Cargo.toml"), &cargo_toml(name));
    if !std::path::Path::new(&format!("{dir}/Cargo.lock")).exists() {
        let _ = std::fs::copy("/verif/harness/Cargo.lock", format!("{dir}/Cargo.lock"));
    }
    write_if_changed(&format!("{dir}/src/rt.rs"), RT_RS);
}

/// the function that evaluates literal `i`; returns its source (one literal per function so that
/// rustc's error lines identify the literal)
fn lit_fn(i: usize, l: &Lit) -> String {
    let (kind, ty) = kind_of(&l.mac, &l.tokens);
    let stat = l.mac.starts_with("static_");
    let mut flags = 0u32;
    if stat {
        flags |= 1;
    }
    if !l.denotes {
        flags |= 2;
    }
    if l.prec_rt {
        flags |= 4;
    }
    let spec = format!("rt::Spec {{ idx: {i}, kind: {kind}, text: {:?}, radix: {}, want: {:?}, prec: {}, alt: {}, flags: {flags} }}", l.text, l.radix, l.want, l.prec, l.alt);
    let inv = format!("dashu::{}!({})", l.mac, l.tokens);
    match l.pos {
        1 => format!("fn l{i}() {{\n    const V: {ty} = {inv};\n    rt::chk(&V, {spec});\n}}\n"),
        2 => format!("fn l{i}() {{\n    static V: &{ty} = {inv};\n    rt::chk(&V, {spec});\n}}\n"),
        _ => format!("fn l{i}() {{\n    let v = {inv};\n    rt::chk(&v, {spec});\n}}\n"),
    }
}

/// source of a program evaluating the literals `idx`; second value: line -> literal index
fn program(lits: &[Lit], idx: &[usize], rt_path: &str) -> (String, Vec<(usize, usize, usize)>) {
    let mut src = format!("#![allow(warnings)]\n#[path = \"{rt_path}\"]\nmod rt;\n");
    let mut lines = Vec::new();
    let mut line = src.lines().count() + 1;
    for &i in idx {
        let f = lit_fn(i, &lits[i]);
        let n = f.lines().count();
        lines.push((line, line + n - 1, i));
        line += n;
        src.push_str(&f);
    }
    src.push_str("fn main() {\n    rt::run(&[");
    for &i in idx {
        src.push_str(&format!("({i}, l{i} as fn()), "));
    }
    src.push_str("]);\n}\n");
    (src, lines)
}

// ------------------------------------------------------------------------------------------------
// building, running, judging
// ------------------------------------------------------------------------------------------------

#[derive(Debug, Clone, PartialEq)]
enum Comp {
    Ok,
    /// rustc's lexer / parser rejected the tokens before the macro saw them
    Lexer(String),
    /// the macro's own diagnostic
    Macro(String),
    /// the expansion does not compile (type error, failed const evaluation, ...)
    Expansion(String),
}

#[derive(Debug, Clone)]
struct Obs {
    comp: Comp,
    started: bool,
    done: bool,
    lines: Vec<String>,
}

struct Build {
    ok: bool,
    /// (target name, first main-file line mentioned, class, message)
    errors: Vec<(String, Option<usize>, Comp)>,
    artifacts: BTreeSet<String>,
    raw_tail: String,
}

fn rustflags(bits32: bool) -> String {
    if bits32 {
        "--cfg dashu_verif --cfg force_bits=\"32\"".to_string()
    } else {
        "--cfg dashu_verif".to_string()
    }
}
fn target_dir(bits32: bool) -> String {
    format!("{}/target{}", gen_root(), if bits32 { "32" } else { "" })
}

fn classify(msg: &str, help: &str) -> Comp {
    let lexer = ["expected at least one digit in exponent", "float literal is not supported", "no valid digits found for number", "invalid digit for a base", "unterminated", "unknown start of token", "expected one of", "mismatched closing delimiter", "unclosed delimiter", "unexpected closing delimiter", "invalid suffix", "prefix `", "unknown prefix"];
    if msg.contains("proc macro panicked") {
        Comp::Macro(help.trim_start_matches("message: ").to_string())
    } else if msg.contains("unexpected end of macro invocation") || msg.contains("no rules expected") {
        // the macro_rules front of the `dashu` crate requires at least one token
        Comp::Macro(msg.to_string())
    } else if lexer.iter().any(|p| msg.contains(p)) {
        Comp::Lexer(msg.to_string())
    } else {
        Comp::Expansion(msg.to_string())
    }
}

fn cargo(dir: &str, args: &[&str], bits32: bool, file_tag: &str) -> Build {
    let out = Command::new("cargo")
        .current_dir(dir)
        .args(args)
        .args(["--release", "--offline", "--message-format", "json"])
        .env("CARGO_NET_OFFLINE", "true")
        .env("CARGO_TARGET_DIR", target_dir(bits32))
        .env("RUSTFLAGS", rustflags(bits32))
        .env("CARGO_TERM_COLOR", "never")
        .env_remove("CARGO_ENCODED_RUSTFLAGS")
        .output()
        .unwrap_or_else(|e| infra(&format!("cannot run cargo: {e}")));
    let stdout = String::from_utf8_lossy(&out.stdout);
    let mut errors = Vec::new();
    let mut artifacts = BTreeSet::new();
    for line in stdout.lines() {
        let v: Value = match serde_json::from_str(line) {
            Ok(v) => v,
            Err(_) => continue,
        };
        let target = v["target"]["name"].as_str().unwrap_or("").to_string();
        match v["reason"].as_str() {
            Some("compiler-artifact") => {
                artifacts.insert(target);
            }
            Some("compiler-message") => {
                let m = &v["message"];
                if m["level"].as_str() != Some("error") {
                    continue;
                }
                let msg = m["message"].as_str().unwrap_or("").to_string();
                if msg.starts_with("aborting due to") || msg.starts_with("could not compile") {
                    continue;
                }
                let help = m["children"].as_array().and_then(|c| c.iter().find_map(|c| c["message"].as_str().filter(|s| s.starts_with("message:")))).unwrap_or("").to_string();
                let rendered = m["rendered"].as_str().unwrap_or("");
                // first location inside the generated file
                let mut line_no = None;
                for part in rendered.split(file_tag).skip(1) {
                    let digits: String = part.trim_start_matches(':').chars().take_while(|c| c.is_ascii_digit()).collect();
                    if let Ok(n) = digits.parse::<usize>() {
                        line_no = Some(n);
                        break;
                    }
                }
                errors.push((target, line_no, classify(&msg, &help)));
            }
            _ => {}
        }
    }
    let stderr = String::from_utf8_lossy(&out.stderr);
    let tail: Vec<&str> = stderr.lines().rev().take(12).collect();
    Build { ok: out.status.success(), errors, artifacts, raw_tail: tail.into_iter().rev().collect::<Vec<_>>().join(" | ") }
}

fn run_binary(path: &str, obs: &mut BTreeMap<usize, Obs>) {
    let out = Command::new("timeout").args(["-k", "5", "120", path]).output().unwrap_or_else(|e| infra(&format!("cannot run {path}: {e}")));
    let stdout = String::from_utf8_lossy(&out.stdout);
    for line in stdout.lines() {
        let mut it = line.splitn(3, ' ');
        let tag = it.next().unwrap_or("");
        let idx = match it.next().and_then(|s| s.parse::<usize>().ok()) {
            Some(i) => i,
            None => continue,
        };
        let o = match obs.get_mut(&idx) {
            Some(o) => o,
            None => continue,
        };
        match tag {
            "START" => o.started = true,
            "DONE" => o.done = true,
            "MISMATCH" | "VALUE" | "PANIC" | "NOTE" => o.lines.push(line.to_string()),
            _ => {}
        }
    }
    if !out.status.success() {
        // the process died: blame the literal that was being evaluated
        if let Some(o) = obs.values_mut().find(|o| o.started && !o.done && !o.lines.iter().any(|l| l.starts_with("PANIC"))) {
            o.lines.push(format!("ABORT the program ended with {} while this literal was evaluated", out.status));
        }
    }
}

/// One crate, one `main.rs` with a function per literal. Literals whose function does not compile
/// are taken out (their error is recorded) and the rest is built again.
fn run_single_crate(name: &str, lits: &[Lit], bits32: bool) -> (Vec<Obs>, f64, f64) {
    let dir = format!("{}/{name}", gen_root());
    prepare_crate(&dir, "c20gen");
    let mut obs: BTreeMap<usize, Obs> = (0..lits.len()).map(|i| (i, Obs { comp: Comp::Ok, started: false, done: false, lines: vec![] })).collect();
    let mut live: Vec<usize> = (0..lits.len()).collect();
    let t0 = Instant::now();
    let mut rounds = 0;
    loop {
        rounds += 1;
        let (src, lines) = program(lits, &live, "rt.rs");
        write_if_changed(&format!("{dir}/src/main.rs"), &src);
        let b = cargo(&dir, &["build"], bits32, "src/main.rs");
        if b.ok {
            break;
        }
        let mut dropped = BTreeSet::new();
        for (_, line, comp) in &b.errors {
            if let Some(n) = line {
                if let Some((_, _, i)) = lines.iter().find(|(a, z, _)| a <= n && n <= z) {
                    let o = obs.get_mut(i).unwrap();
                    // a macro diagnostic outranks the follow-up errors of the same literal
                    if o.comp == Comp::Ok || (matches!(comp, Comp::Macro(_) | Comp::Lexer(_)) && matches!(o.comp, Comp::Expansion(_))) {
                        o.comp = comp.clone();
                    }
                    dropped.insert(*i);
                }
            }
        }
        if dropped.is_empty() || rounds > 8 {
            infra(&format!("generated crate {dir} does not build and no error points at a literal: {}", truncate(&b.raw_tail, 900)));
        }
        live.retain(|i| !dropped.contains(i));
    }
    let build_s = t0.elapsed().as_secs_f64();
    let t1 = Instant::now();
    run_binary(&format!("{}/release/c20gen", target_dir(bits32)), &mut obs);
    (obs.into_values().collect(), build_s, t1.elapsed().as_secs_f64())
}

/// Second crate: one `[[bin]]` per literal, `cargo check --bins --keep-going`; what compiles is
/// built and run.
fn run_bins_crate(name: &str, lits: &[Lit]) -> (Vec<Obs>, f64, f64) {
    let dir = format!("{}/{name}", gen_root());
    prepare_crate(&dir, "c20neg");
    let bin_dir = format!("{dir}/src/bin");
    let _ = std::fs::remove_dir_all(&bin_dir);
    let _ = std::fs::create_dir_all(&bin_dir);
    write_if_changed(&format!("{dir}/src/main.rs"), "fn main() {}\n");
    for i in 0..lits.len() {
        let (src, _) = program(lits, &[i], "../rt.rs");
        std::fs::write(format!("{bin_dir}/n{i}.rs"), src).unwrap_or_else(|e| infra(&format!("cannot write bin: {e}")));
    }
    let t0 = Instant::now();
    let b = cargo(&dir, &["check", "--bins", "--keep-going"], false, ".rs");
    let mut obs: Vec<Obs> = (0..lits.len()).map(|_| Obs { comp: Comp::Ok, started: false, done: false, lines: vec![] }).collect();
    let mut compiled = Vec::new();
    for i in 0..lits.len() {
        let t = format!("n{i}");
        let errs: Vec<&Comp> = b.errors.iter().filter(|e| e.0 == t).map(|e| &e.2).collect();
        if let Some(first) = errs.iter().find(|c| matches!(c, Comp::Macro(_) | Comp::Lexer(_))).or(errs.first()) {
            obs[i].comp = (*first).clone();
        } else if b.artifacts.contains(&t) {
            compiled.push(i);
        } else {
            infra(&format!("negative crate: target {t} neither failed nor was checked: {}", truncate(&b.raw_tail, 900)));
        }
    }
    let build_s = t0.elapsed().as_secs_f64();
    let t1 = Instant::now();
    if !compiled.is_empty() {
        let mut args: Vec<String> = vec!["build".into()];
        for i in &compiled {
            args.push("--bin".into());
            args.push(format!("n{i}"));
        }
        let argv: Vec<&str> = args.iter().map(|s| s.as_str()).collect();
        let bb = cargo(&dir, &argv, false, ".rs");
        if !bb.ok {
            infra(&format!("negative crate: targets passed cargo check but do not build: {}", truncate(&bb.raw_tail, 900)));
        }
        for i in compiled {
            let mut m: BTreeMap<usize, Obs> = BTreeMap::new();
            m.insert(i, obs[i].clone());
            run_binary(&format!("{}/release/n{i}", target_dir(false)), &mut m);
            obs[i] = m.remove(&i).unwrap();
        }
    }
    (obs, build_s, t1.elapsed().as_secs_f64())
}

#[derive(Debug, Clone)]
enum V {
    Pass,
    Incon(String),
    Viol(String),
}

fn show(l: &Lit) -> String {
    format!("{}!({})", l.mac, truncate(&l.tokens, 160))
}

fn judge(l: &Lit, o: &Obs) -> V {
    let bad: Vec<&String> = o.lines.iter().filter(|s| !s.starts_with("NOTE") && !s.starts_with("VALUE")).collect();
    let value = o.lines.iter().find(|s| s.starts_with("VALUE")).map(|s| s.splitn(3, ' ').nth(2).unwrap_or("").to_string());
    let strip = |s: &String| s.splitn(3, ' ').nth(2).unwrap_or("").to_string();
    match (&o.comp, l.expect) {
        (Comp::Lexer(m), MUST | MAY) => V::Incon(format!("generator: rustc's lexer rejects {}: {m}", show(l))),
        (Comp::Macro(m), MUST) => V::Viol(format!("{} is rejected although the form is documented: {}", show(l), truncate(m, 200))),
        (Comp::Expansion(m), MUST | MAY) => V::Viol(format!("{} is accepted by the macro but its expansion does not compile: {}", show(l), truncate(m, 300))),
        (Comp::Macro(_), MAY) => V::Pass,
        (Comp::Lexer(_) | Comp::Macro(_), _) => V::Pass,
        (Comp::Expansion(m), _) => {
            // a literal outside the grammar must be a compile error; any error will do, but say which
            let _ = m;
            V::Pass
        }
        (Comp::Ok, FAIL) => {
            if !o.done && bad.is_empty() {
                return V::Viol(format!("{} is outside the documented grammar, compiles, and the program did not finish evaluating it", show(l)));
            }
            if l.denotes {
                if bad.is_empty() {
                    V::Incon(format!("generator: {} was classified as outside the grammar but is accepted with its natural value {}", show(l), l.want))
                } else {
                    V::Viol(format!("{} is outside the documented grammar but compiles to a different number: {}", show(l), truncate(&strip(bad[0]), 300)))
                }
            } else if !bad.is_empty() {
                V::Viol(format!("{} is outside the documented grammar but compiles, and: {}", show(l), truncate(&strip(bad[0]), 300)))
            } else {
                V::Viol(format!("{} is outside the documented grammar but compiles, to {}", show(l), value.unwrap_or_default()))
            }
        }
        (Comp::Ok, _) => {
            if let Some(b) = bad.first() {
                V::Viol(format!("{}: {}", show(l), truncate(&strip(b), 400)))
            } else if !o.done {
                V::Viol(format!("{}: the generated program did not finish evaluating the literal", show(l)))
            } else {
                V::Pass
            }
        }
    }
}

// ------------------------------------------------------------------------------------------------
// known findings: predicates over the token structure, as narrow as the root cause
// ------------------------------------------------------------------------------------------------

fn known_id(l: &Lit, o: &Obs) -> Option<&'static str> {
    if o.comp != Comp::Ok || l.expect != FAIL {
        return None;
    }
    let toks = lex(&l.tokens).ok()?;
    let is_sign = |t: &Tok| matches!(t, Tok::Punct('+') | Tok::Punct('-'));
    let is_val = |t: &Tok| matches!(t, Tok::Num(_) | Tok::Ident(_));
    let m = l.mac.trim_start_matches("static_");
    // every value-producing observation of such a literal is covered, a crash or a layout defect is not
    if o.lines.iter().any(|s| s.starts_with("PANIC") || s.starts_with("ABORT") || s.contains("storage layout")) || !o.done {
        return None;
    }
    let mut body: Vec<&Tok> = toks.iter().filter(|t| !matches!(t, Tok::Punct('~'))).collect();
    // a well-formed trailing `base N` clause is not part of the pattern
    if body.len() >= 3 && matches!(body[body.len() - 2], Tok::Ident(s) if s == "base") && matches!(body[body.len() - 1], Tok::Num(_)) {
        body.truncate(body.len() - 2);
    }
    if matches!(m, "ibig" | "rbig" | "fbig") && body.len() >= 3 && is_sign(body[0]) && is_sign(body[1]) && is_val(body[2]) && body[3..].iter().all(|t| !is_sign(t)) {
        // parse_integer_with_error / parse_ratio_with_error accept any number of sign tokens in
        // front of the value; parse_binary_float strips one sign and hands the rest to from_str
        return Some("C20/repeated-sign-tokens");
    }
    if m == "rbig" {
        let vals = body.iter().filter(|t| is_val(t)).count();
        let bars = body.iter().filter(|t| matches!(t, Tok::Punct('/'))).count();
        let signs_ok = body.iter().filter(|t| is_sign(t)).count() <= 1;
        // `a/`, `/a` (nothing on one side of the bar) and `a b` (no bar): den_marked is never consulted
        if signs_ok && ((vals == 1 && bars == 1) || (vals == 2 && bars == 0 && is_val(body[body.len() - 1]) && is_val(body[body.len() - 2]))) {
            return Some("C20/rbig-fraction-bar-not-checked");
        }
    }
    if matches!(m, "fbig" | "dbig") && body.len() == 2 && matches!((body[0], body[1]), (Tok::Num(_), Tok::Num(_))) {
        // parse_*_float concatenate the token texts: `1.5 123` is read as 1.5123
        return Some("C20/float-macros-join-separate-literals");
    }
    None
}

// ------------------------------------------------------------------------------------------------

static INTERN: Mutex<Option<HashMap<String, &'static str>>> = Mutex::new(None);
fn intern(s: &str) -> &'static str {
    let mut g = INTERN.lock().unwrap();
    let m = g.get_or_insert_with(HashMap::new);
    if let Some(v) = m.get(s) {
        return v;
    }
    let v: &'static str = Box::leak(s.to_string().into_boxed_str());
    m.insert(s.to_string(), v);
    v
}

static ONE: Mutex<()> = Mutex::new(());

/// proptest sub / replay: one literal, its own crate
fn judge_one(c: &OneCase, ctx: &Ctx) -> Out {
    let mut out = Out::new();
    let l = &c.lit;
    for lab in &l.labels {
        out.label(intern(lab));
    }
    out.label(intern(&format!("macro: {}!", l.mac)));
    out.label(if c.bits32 { "word size: 32 (force_bits)" } else { "word size: 64" });
    out.nontrivial(l.nontrivial);
    let o = {
        let _g = ONE.lock().unwrap_or_else(|e| e.into_inner());
        let (mut obs, _, _) = run_single_crate(if c.bits32 { "one32" } else { "one" }, std::slice::from_ref(l), c.bits32);
        obs.remove(0)
    };
    match judge(l, &o) {
        V::Pass => {}
        V::Incon(w) => out.inconclusive(w),
        V::Viol(sig) => match known_id(l, &o) {
            Some(id) => ctx.known_or_fail(&mut out, id, || sig.clone()),
            None => out.fail(sig),
        },
    }
    out
}

#[derive(Debug, Clone, Hash, Serialize, Deserialize)]
struct OneCase {
    lit: Lit,
    #[serde(default)]
    bits32: bool,
}

#[derive(Default)]
struct Agg {
    evals: u64,
    labels: BTreeMap<&'static str, u64>,
    distinct: BTreeSet<String>,
    samples: Vec<Value>,
    violations: Vec<(String, Value)>,
    known: BTreeMap<String, u64>,
    incon: Vec<String>,
    build_s: f64,
    run_s: f64,
    per_macro: BTreeMap<String, u64>,
    rejected_may: u64,
    rejected_by: BTreeMap<String, u64>,
}

fn account(agg: &mut Agg, ck: &Check, lits: &[Lit], obs: &[Obs], bits32: bool) {
    for (l, o) in lits.iter().zip(obs) {
        agg.evals += 1;
        *agg.per_macro.entry(format!("{}!", l.mac)).or_default() += 1;
        for lab in &l.labels {
            *agg.labels.entry(intern(lab)).or_default() += 1;
        }
        *agg.labels.entry(intern(&format!("macro: {}!", l.mac))).or_default() += 1;
        let outcome = match (&o.comp, l.expect) {
            (Comp::Ok, FAIL) => "outcome: literal outside the grammar compiled",
            (Comp::Ok, _) => "outcome: compiled and evaluated",
            (Comp::Lexer(_), FAIL) => "outcome: rejected by rustc's lexer",
            (Comp::Macro(_), FAIL) => "outcome: rejected by the macro",
            (Comp::Expansion(_), FAIL) => "outcome: rejected when compiling the expansion",
            (Comp::Macro(_), MAY) => {
                agg.rejected_may += 1;
                for lab in l.labels.iter().filter(|x| x.contains("not in the macro docs") || x.contains("docs show") || x.contains("not promised") || x.contains("tests only")) {
                    *agg.rejected_by.entry(lab.clone()).or_default() += 1;
                }
                "outcome: undocumented form rejected by the macro"
            }
            _ => "outcome: documented form did not compile",
        };
        *agg.labels.entry(outcome).or_default() += 1;
        if l.nontrivial {
            agg.distinct.insert(format!("{}!({})", l.mac, l.tokens));
            if agg.samples.len() < 3 && l.tokens.len() < 200 && agg.evals % 7 == 3 {
                agg.samples.push(json!({"macro": l.mac, "tokens": l.tokens, "text": l.text, "radix": l.radix, "want": l.want, "prec": l.prec}));
            }
        }
        let case = serde_json::to_value(OneCase { lit: l.clone(), bits32 }).unwrap();
        match judge(l, o) {
            V::Pass => {}
            V::Incon(w) => agg.incon.push(w),
            V::Viol(sig) => match known_id(l, o) {
                Some(id) if ck.known().active(id) => *agg.known.entry(id.to_string()).or_default() += 1,
                Some(id) => agg.violations.push((format!("[{id}] {sig}"), case)),
                None => agg.violations.push((sig, case)),
            },
        }
    }
}

fn report(ck: &mut Check, name: &str, agg: Agg, engine: &str) {
    for w in agg.incon.iter().take(5) {
        println!("INCONCLUSIVE: {}", truncate(w, 400));
    }
    for (sig, _) in agg.violations.iter().skip(1).take(60) {
        println!("  further violation in {name}: {}", truncate(sig, 400));
    }
    let extra = json!({
        "engine": engine,
        "per_macro": agg.per_macro,
        "build_s": (agg.build_s * 10.0).round() / 10.0,
        "run_s": (agg.run_s * 10.0).round() / 10.0,
        "known_findings_hit": agg.known,
        "inconclusive": agg.incon.len(),
        "inconclusive_samples": agg.incon.iter().take(3).collect::<Vec<_>>(),
        "violations_total": agg.violations.len(),
        "undocumented_forms_rejected": agg.rejected_may,
        "undocumented_forms_rejected_by_label": agg.rejected_by,
    });
    let first = agg.violations.into_iter().next();
    ck.external(name, agg.evals, agg.distinct.len() as u64, agg.labels, agg.samples, first, Some(extra));
}

fn main() {
    let mut ck = Check::new(
        "C20",
        "generated programs: literal token texts drawn from the documented grammar of ubig!/ibig!/fbig!/dbig!/rbig! and the static_ variants (decimal, 0b/0o/0x, `base N` for N in 2..=36 with the identifier / suffix / leading-underscore token shapes, signs, underscores, leading and trailing zeros, binary and hexadecimal floats with B/p exponents, decimal floats with e exponents, fractions with common factors, ~), magnitudes 0, 1, 2^32±1, 2^64±1, 2^128±1, 2^192, byte and word boundaries, 40 words; each literal is compiled against the working tree (expression, const item, static item), run, and compared through raw words with the run-time parse of the same text, with the generator's own value, with the written digit count (precision) and with the documented storage layout; literals outside the grammar are separate [[bin]] targets that must not compile. Non-trivial: value needing more than 32 bits, or a float / ratio literal, or a literal outside the grammar; distinct by macro + token text.",
    );
    ck.assume("rustc's lexer decides what reaches a macro: the generator only emits token texts its model of rustc_lexer accepts; a positive literal rustc itself rejects is reported as inconclusive (generator), never as a violation");
    ck.assume("the run-time parsers (judged by C07/C08) are the primary reference; the generator's own value (num-bigint) is the second");
    ck.assume("cargo/rustc build the generated crates offline against DV_REPO (default /repo) with --cfg dashu_verif; opt-level 0, debug assertions on, also in the proc-macro");
    let th = ck.thorough();
    let seed = ck.seed;

    // one literal per crate: the replay path, and a small sample on every run
    ck.sub(
        "literals",
        (16, 48),
        || (lit_strategy(25), 0u8..8).prop_map(|(lit, k)| OneCase { lit, bits32: k == 0 }).no_shrink(),
        judge_one,
    );

    if !ck.is_replay() {
        let scale = ck.scale;
        let n_batches = (((if th { 80.0 } else { 6.0 }) * scale).ceil() as usize).max(1);
        let per_batch = 400usize;
        let n32 = (((if th { 16.0 } else { 1.0 }) * scale).ceil() as usize).max(1);
        let per32 = 400;
        let n_neg = (((if th { 1000.0 } else { 80.0 }) * scale).ceil() as usize).max(8);

        if ck.wants("literals@batch") {
            let mut agg = Agg::default();
            for b in 0..n_batches {
                let lits = sample_strategy(&lit_strategy(0), seed_mix(seed_mix(seed, 0xC20), b as u64), per_batch);
                let (obs, bs, rs) = run_single_crate("pos", &lits, false);
                agg.build_s += bs;
                agg.run_s += rs;
                account(&mut agg, &ck, &lits, &obs, false);
            }
            report(&mut ck, "literals@batch", agg, "generated crate <macrogen>/pos, one function per literal, cargo build + run, 64-bit words");
        }
        if ck.wants("literals@batch32") {
            let mut agg = Agg::default();
            for b in 0..n32 {
                let lits = sample_strategy(&lit_strategy(0), seed_mix(seed_mix(seed, 0xC2032), b as u64), per32);
                let (obs, bs, rs) = run_single_crate("pos32", &lits, true);
                agg.build_s += bs;
                agg.run_s += rs;
                account(&mut agg, &ck, &lits, &obs, true);
            }
            report(&mut ck, "literals@batch32", agg, "the same with RUSTFLAGS --cfg force_bits=\"32\" (32-bit words, also inside the proc-macro)");
        }
        if ck.wants("literals@negative") {
            let mut agg = Agg::default();
            let lits = sample_strategy(&lit_strategy(100), seed_mix(seed, 0xC20E), n_neg);
            let (obs, bs, rs) = run_bins_crate("neg", &lits);
            agg.build_s += bs;
            agg.run_s += rs;
            account(&mut agg, &ck, &lits, &obs, false);
            report(&mut ck, "literals@negative", agg, "generated crate <macrogen>/neg, one [[bin]] per literal, cargo check --bins --keep-going; what compiles is built and run");
        }
    }
    ck.finish();
}
