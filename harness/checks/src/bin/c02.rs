//! C02 — division identity and conventions (construction a = q·b + r, num-bigint differential).
use dashu_base::{DivEuclid, DivRem, DivRemAssign, DivRemEuclid, RemEuclid};
use dashu_int::fast_div::ConstDivisor;
use dashu_int::{IBig, UBig};
use dv::gen::{self, Prof};
use dv::nb::NbInt;
use dv::*;
use num_bigint::{BigInt, BigUint};
use num_traits::{One, Signed, Zero};
use proptest::prelude::*;
use serde::{Deserialize, Serialize};

#[derive(Debug, Clone, Hash, Serialize, Deserialize)]
struct DivCase {
    a: Int,
    b: Int,
}

#[derive(Debug, Clone, Hash, Serialize, Deserialize)]
struct PrimDiv {
    a: Int,
    p: i128,
    width: u8,
}

fn divisor(max_words: usize) -> BoxedStrategy<Nat> {
    let mut v: Vec<(u32, BoxedStrategy<Nat>)> = vec![
        // one word: 1, 2^k, MAX, random
        (1, Just(Nat(vec![1])).boxed()),
        (2, (0u32..64).prop_map(|k| Nat(vec![1u64 << k])).boxed()),
        (1, Just(Nat(vec![u64::MAX])).boxed()),
        (4, any::<u64>().prop_map(|w| Nat(vec![w.max(1)])).boxed()),
        (2, (1u64..1000).prop_map(|w| Nat(vec![w])).boxed()),
        // two words: powers of two 2^64..2^127, normalised (top bit set), needing a shift
        (3, (64u32..128).prop_map(|k| Nat::from_u128(1u128 << k)).boxed()),
        (3, any::<u128>().prop_map(|w| Nat::from_u128(w | (1u128 << 127))).boxed()),
        (3, (any::<u128>(), 1u32..63).prop_map(|(w, s)| Nat::from_u128(((w | (1u128 << 127)) >> s) | (1u128 << 64))).boxed()),
        (2, gen::nat_len(2, 2)),
        // 3..32 words
        (6, gen::nat_len(3, 8)),
    ];
    if max_words >= 34 {
        v.push((3, gen::nat_len(9, 30)));
        v.push((4, gen::nat_len(31, 34)));
    }
    if max_words >= 80 {
        v.push((3, gen::nat_len(35, 80)));
    }
    if max_words >= 2000 {
        v.push((1, gen::nat_len(81, 400)));
        v.push((1, gen::nat_len(401, 2000)));
    }
    proptest::strategy::Union::new_weighted(v).boxed()
}

fn quotient(max_words: usize) -> BoxedStrategy<Nat> {
    let mut v: Vec<(u32, BoxedStrategy<Nat>)> = vec![
        (2, Just(Nat(vec![])).boxed()),
        (2, (0u64..4).prop_map(|w| Nat(vec![w])).boxed()),
        (3, gen::nat_len(1, 1)),
        (3, gen::nat_len(2, 2)),
        (4, gen::nat_len(3, 8)),
    ];
    if max_words >= 34 {
        v.push((2, gen::nat_len(9, 30)));
        v.push((4, gen::nat_len(31, 34)));
    }
    if max_words >= 70 {
        v.push((3, gen::nat_len(35, 70)));
    }
    if max_words >= 2000 {
        v.push((1, gen::nat_len(71, 1000)));
    }
    proptest::strategy::Union::new_weighted(v).boxed()
}

fn div_case(max_b: usize, max_q: usize) -> impl Strategy<Value = DivCase> {
    (divisor(max_b), quotient(max_q), 0u8..10, any::<u64>(), any::<bool>(), any::<bool>()).prop_map(|(b, q, rsel, s, sa, sb)| {
        let nb = b.big();
        let nq = q.big();
        let lb = b.trimmed_len();
        let na: BigUint = match rsel {
            0 | 1 => &nq * &nb,                                            // r = 0
            2 => &nq * &nb + BigUint::one().min(&nb - BigUint::one()),    // r = 1 (0 if b = 1)
            3 | 4 => &nq * &nb + (&nb - BigUint::one()),                  // r = b - 1
            5 => {
                // dividend whose top words equal the divisor's: b·2^(64k) − 1 (top-word correction)
                let k = (s % 3) as usize + q.trimmed_len();
                (&nb << (64 * k)) - BigUint::one()
            }
            6 => {
                // b·2^(64k) + (b − 1)
                let k = (s % 3) as usize + q.trimmed_len();
                (&nb << (64 * k)) + (&nb - BigUint::one())
            }
            _ => {
                let r = Nat(gen::expand(lb, (s % 12) as u8, s)).big() % &nb;
                &nq * &nb + r
            }
        };
        let a = Nat::from_big(&na);
        DivCase { a: Int { neg: sa && !a.is_zero(), mag: a }, b: Int { neg: sb, mag: b } }
    })
}

/// Dividends aimed at the correction step of the divide-and-conquer division (div/divide_conquer.rs,
/// `rem -= q · rhs_lo` through the chunked multiply-accumulate kernels of mul/): the top part of the
/// dividend is an exact multiple of the top m words of the divisor and the words below are zero, so the
/// partial remainder is zero when the correction product is subtracted and its borrow runs through
/// the whole remainder. Operands are assembled from chunks (random / only the low third / zero /
/// all ones) aligned with the chunk size of that product.
fn dc_case() -> impl Strategy<Value = DivCase> {
    let sizes = prop_oneof![
        6 => (66usize..=200),
        6 => (201usize..=420),
        5 => (421usize..=900),
        1 => (2073usize..=2200),
    ];
    (sizes, any::<u64>(), 0u8..8, 0u8..6, 0u8..8, 0u8..4, any::<bool>(), any::<bool>()).prop_map(|(n, seed, msel, blo_kind, low_kind, ext, sa, sb)| {
        let mut r = gen::SplitMix(seed ^ 0xd1c0);
        // m = words of the quotient block, l = n - m = words of the low part of the divisor
        let m = if n > 2048 {
            n - 1 - r.below(24) as usize // schoolbook correction product against a >= 2048-word quotient
        } else {
            match msel {
                0 => n - n / 2,                                     // the 3n/2n step of a 2n-word dividend
                1 => n / 3,
                2 => 2 * n / 3,
                3 => 33 + r.below((n - 34) as u64) as usize,
                4 => n - 1 - r.below(24.min(n as u64 - 34)) as usize,
                5 => (n / 4).max(33),
                6 => n - (n / 4).max(1),
                _ => 33 + r.below((n - 34) as u64) as usize,
            }
        }
        .clamp(33, n - 1);
        let l = n - m;
        let s = m.min(l).max(1); // chunk length of the correction product
        let third = (s / 3).max(1);
        let chunked = |r: &mut gen::SplitMix, len: usize| -> Vec<u64> {
            let mut v = vec![0u64; len];
            let mut at = 0;
            while at < len {
                let end = (at + s).min(len);
                match r.below(8) {
                    0 | 1 | 2 => v[at..end].iter_mut().for_each(|w| *w = r.next()),
                    3 | 4 => v[at..(at + third).min(end)].iter_mut().for_each(|w| *w = r.next()),
                    5 => {}
                    6 => v[at..end].iter_mut().for_each(|w| *w = u64::MAX),
                    _ => v[at] = r.next() | 1,
                }
                at = end;
            }
            v
        };
        // divisor = [b_lo (l words) | b_hi (m words)]
        let mut b_hi: Vec<u64> = if r.below(4) == 0 { chunked(&mut r, m) } else { (0..m).map(|_| r.next()).collect() };
        if r.below(8) != 0 {
            b_hi[m - 1] |= 1 << 63;
        } else if b_hi[m - 1] == 0 {
            b_hi[m - 1] = 1 + r.below(1000);
        }
        let mut b_lo: Vec<u64> = match blo_kind {
            0 => (0..l).map(|_| r.next()).collect(),
            1 | 2 => {
                let mut v = vec![0u64; l];
                v[..third.min(l)].iter_mut().for_each(|w| *w = r.next());
                v
            }
            3 => {
                let mut v = vec![0u64; l];
                let j = 1 + r.below(8.min(l as u64)) as usize;
                v[..j].iter_mut().for_each(|w| *w = r.next());
                v
            }
            4 => chunked(&mut r, l),
            _ => gen::expand(l, (seed % 13) as u8, seed),
        };
        if r.below(2) == 0 && l > 1 {
            b_lo[l - 1] = 0;
        }
        let mut q0 = chunked(&mut r, m);
        if r.below(4) != 0 {
            q0[m - 1] |= 1 << 63;
        }
        let nb_hi = Nat(b_hi.clone()).big();
        let nq0 = Nat(q0).big();
        let mut na: BigUint = (&nb_hi * &nq0) << (64 * l);
        match low_kind {
            0..=4 => {}
            5 => na += BigUint::one(),
            6 => na += Nat(gen::expand(1 + r.below(4) as usize, 1, seed)).big(),
            _ => na += Nat((0..l).map(|_| r.next()).collect()).big(),
        }
        if ext == 0 && n <= 900 {
            // make it the first 3n/2n step of a 2n-word dividend
            let n_lo = n / 2;
            na = (na << (64 * n_lo)) + Nat((0..n_lo).map(|_| r.next()).collect()).big();
        }
        let mut bw = b_lo;
        bw.extend_from_slice(&b_hi);
        let a = Nat::from_big(&na);
        DivCase { a: Int { neg: sa && !a.is_zero(), mag: a }, b: Int { neg: sb, mag: Nat(bw) } }
    })
}

fn eq_u(out: &mut Out, what: &str, got: Result<UBig, String>, want: &BigUint) {
    match got {
        Ok(g) => {
            if &u2n(&g) != want {
                out.fail(format!("{what}: got {} want {}", show_u(&u2n(&g)), show_u(want)));
            }
        }
        Err(m) => out.fail(format!("{what}: unexpected panic {}", normalise(&m))),
    }
}
fn eq_i(out: &mut Out, what: &str, got: Result<IBig, String>, want: &BigInt) {
    match got {
        Ok(g) => {
            if &i2n(&g) != want {
                out.fail(format!("{what}: got {} want {}", show_i(&i2n(&g)), show_i(want)));
            }
        }
        Err(m) => out.fail(format!("{what}: unexpected panic {}", normalise(&m))),
    }
}
fn eq_uu(out: &mut Out, what: &str, got: Result<(UBig, UBig), String>, q: &BigUint, r: &BigUint) {
    match got {
        Ok((gq, gr)) => {
            if &u2n(&gq) != q || &u2n(&gr) != r {
                out.fail(format!("{what}: got ({}, {}) want ({}, {})", show_u(&u2n(&gq)), show_u(&u2n(&gr)), show_u(q), show_u(r)));
            }
        }
        Err(m) => out.fail(format!("{what}: unexpected panic {}", normalise(&m))),
    }
}
fn eq_ii(out: &mut Out, what: &str, got: Result<(IBig, IBig), String>, q: &BigInt, r: &BigInt) {
    match got {
        Ok((gq, gr)) => {
            if &i2n(&gq) != q || &i2n(&gr) != r {
                out.fail(format!("{what}: got ({}, {}) want ({}, {})", show_i(&i2n(&gq)), show_i(&i2n(&gr)), show_i(q), show_i(r)));
            }
        }
        Err(m) => out.fail(format!("{what}: unexpected panic {}", normalise(&m))),
    }
}
fn eq_iu(out: &mut Out, what: &str, got: Result<(IBig, UBig), String>, q: &BigInt, r: &BigUint) {
    match got {
        Ok((gq, gr)) => {
            if &i2n(&gq) != q || &u2n(&gr) != r {
                out.fail(format!("{what}: got ({}, {}) want ({}, {})", show_i(&i2n(&gq)), show_u(&u2n(&gr)), show_i(q), show_u(r)));
            }
        }
        Err(m) => out.fail(format!("{what}: unexpected panic {}", normalise(&m))),
    }
}

fn division(c: &DivCase, _ctx: &Ctx) -> Out {
    let mut out = Out::new();
    let (la, lb) = (c.a.mag.trimmed_len(), c.b.mag.trimmed_len());
    let (ua, ub) = (c.a.mag.ubig(), c.b.mag.ubig());
    let (nua, nub) = (c.a.mag.big(), c.b.mag.big());
    let (a, b) = (c.a.ibig(), c.b.ibig());
    let (na, nb) = (c.a.big(), c.b.big());
    debug_assert!(!nub.is_zero());

    // ---------- reference: the identity itself, evaluated with num-bigint
    let (uq, ur) = nua.div_rem(&nub);
    // self-check of the oracle: a = q·b + r, 0 <= r < b
    assert!(&uq * &nub + &ur == nua && ur < nub);
    let (tq, tr) = na.div_rem(&nb); // truncated: r has the sign of a
    assert!(&tq * &nb + &tr == na && tr.magnitude() < nb.magnitude() && (tr.is_zero() || tr.is_negative() == na.is_negative()));
    // Euclidean: 0 <= r < |b|
    let er: BigInt = na.mod_floor(&nb.abs());
    let eq: BigInt = (&na - &er) / &nb;
    assert!(&eq * &nb + &er == na && !er.is_negative() && er.magnitude() < nb.magnitude());
    let eru = er.magnitude().clone();

    let ql = uq.to_u64_digits().len();
    out.nontrivial(lb >= 2 && !uq.is_zero());
    out.label(match lb {
        1 => "divisor:word",
        2 => "divisor:dword",
        3..=32 => "divisor:3-32 words",
        _ => "divisor:>32 words",
    });
    if nub.count_ones() == 1 {
        out.label("divisor:power of two");
    }
    out.label(match ql {
        0 => "quotient:0 (a<b)",
        1 => "quotient:1 word",
        2 => "quotient:2 words",
        3..=32 => "quotient:3-32 words",
        _ => "quotient:>32 words",
    });
    if lb > 32 && la >= lb && la - lb > 32 {
        out.label("algo:divide-and-conquer");
    } else if lb > 2 && la >= lb {
        out.label("algo:schoolbook");
    }
    if ur.is_zero() {
        out.label("rem:0");
    } else if &ur + BigUint::one() == nub {
        out.label("rem:b-1");
    }
    if la >= lb && lb >= 1 && ql == la - lb + 1 {
        out.label("quotient carry (top word)");
    }
    out.label(match (c.a.neg, c.b.neg) {
        (false, false) => "sign:++",
        (false, true) => "sign:+-",
        (true, false) => "sign:-+",
        (true, true) => "sign:--",
    });

    // ---------- UBig forms
    eq_u(&mut out, "UBig / val.val", catch(|| ua.clone() / ub.clone()), &uq);
    eq_u(&mut out, "UBig / val.ref", catch(|| ua.clone() / &ub), &uq);
    eq_u(&mut out, "UBig / ref.val", catch(|| &ua / ub.clone()), &uq);
    eq_u(&mut out, "UBig / ref.ref", catch(|| &ua / &ub), &uq);
    eq_u(&mut out, "UBig % val.val", catch(|| ua.clone() % ub.clone()), &ur);
    eq_u(&mut out, "UBig % val.ref", catch(|| ua.clone() % &ub), &ur);
    eq_u(&mut out, "UBig % ref.val", catch(|| &ua % ub.clone()), &ur);
    eq_u(&mut out, "UBig % ref.ref", catch(|| &ua % &ub), &ur);
    eq_uu(&mut out, "UBig div_rem val.val", catch(|| ua.clone().div_rem(ub.clone())), &uq, &ur);
    eq_uu(&mut out, "UBig div_rem val.ref", catch(|| ua.clone().div_rem(&ub)), &uq, &ur);
    eq_uu(&mut out, "UBig div_rem ref.val", catch(|| (&ua).div_rem(ub.clone())), &uq, &ur);
    eq_uu(&mut out, "UBig div_rem ref.ref", catch(|| (&ua).div_rem(&ub)), &uq, &ur);
    eq_u(&mut out, "UBig div_euclid", catch(|| (&ua).div_euclid(&ub)), &uq);
    eq_u(&mut out, "UBig rem_euclid", catch(|| ua.clone().rem_euclid(&ub)), &ur);
    eq_uu(&mut out, "UBig div_rem_euclid", catch(|| (&ua).div_rem_euclid(ub.clone())), &uq, &ur);
    eq_u(&mut out, "UBig /=", catch(|| { let mut x = ua.clone(); x /= &ub; x }), &uq);
    eq_u(&mut out, "UBig /= val", catch(|| { let mut x = ua.clone(); x /= ub.clone(); x }), &uq);
    eq_u(&mut out, "UBig %=", catch(|| { let mut x = ua.clone(); x %= &ub; x }), &ur);
    eq_uu(&mut out, "UBig div_rem_assign", catch(|| { let mut x = ua.clone(); let r = x.div_rem_assign(&ub); (x, r) }), &uq, &ur);
    eq_uu(&mut out, "UBig div_rem_assign val", catch(|| { let mut x = ua.clone(); let r = x.div_rem_assign(ub.clone()); (x, r) }), &uq, &ur);
    match catch(|| ua.is_multiple_of(&ub)) {
        Ok(m) => out.check(m == ur.is_zero(), || format!("UBig::is_multiple_of = {m}, remainder zero = {}", ur.is_zero())),
        Err(m) => out.fail(format!("UBig::is_multiple_of panicked: {}", normalise(&m))),
    }
    if lb <= 2 {
        let d: u128 = c.b.mag.0.first().copied().unwrap_or(0) as u128 | ((c.b.mag.0.get(1).copied().unwrap_or(0) as u128) << 64);
        match catch(|| (ua.is_multiple_of_const(d), a.is_multiple_of_const(d))) {
            Ok((m1, m2)) => out.check(m1 == ur.is_zero() && m2 == ur.is_zero(), || format!("is_multiple_of_const = ({m1},{m2}), remainder zero = {}", ur.is_zero())),
            Err(m) => out.fail(format!("is_multiple_of_const panicked: {}", normalise(&m))),
        }
    }

    // ---------- IBig forms
    eq_i(&mut out, "IBig / val.val", catch(|| a.clone() / b.clone()), &tq);
    eq_i(&mut out, "IBig / val.ref", catch(|| a.clone() / &b), &tq);
    eq_i(&mut out, "IBig / ref.val", catch(|| &a / b.clone()), &tq);
    eq_i(&mut out, "IBig / ref.ref", catch(|| &a / &b), &tq);
    eq_i(&mut out, "IBig % val.val", catch(|| a.clone() % b.clone()), &tr);
    eq_i(&mut out, "IBig % val.ref", catch(|| a.clone() % &b), &tr);
    eq_i(&mut out, "IBig % ref.val", catch(|| &a % b.clone()), &tr);
    eq_i(&mut out, "IBig % ref.ref", catch(|| &a % &b), &tr);
    eq_ii(&mut out, "IBig div_rem val.val", catch(|| a.clone().div_rem(b.clone())), &tq, &tr);
    eq_ii(&mut out, "IBig div_rem val.ref", catch(|| a.clone().div_rem(&b)), &tq, &tr);
    eq_ii(&mut out, "IBig div_rem ref.val", catch(|| (&a).div_rem(b.clone())), &tq, &tr);
    eq_ii(&mut out, "IBig div_rem ref.ref", catch(|| (&a).div_rem(&b)), &tq, &tr);
    eq_i(&mut out, "IBig div_euclid val.val", catch(|| a.clone().div_euclid(b.clone())), &eq);
    eq_i(&mut out, "IBig div_euclid ref.ref", catch(|| (&a).div_euclid(&b)), &eq);
    eq_u(&mut out, "IBig rem_euclid val.ref", catch(|| a.clone().rem_euclid(&b)), &eru);
    eq_u(&mut out, "IBig rem_euclid ref.val", catch(|| (&a).rem_euclid(b.clone())), &eru);
    eq_iu(&mut out, "IBig div_rem_euclid val.val", catch(|| a.clone().div_rem_euclid(b.clone())), &eq, &eru);
    eq_iu(&mut out, "IBig div_rem_euclid ref.ref", catch(|| (&a).div_rem_euclid(&b)), &eq, &eru);
    eq_iu(&mut out, "IBig div_rem_euclid val.ref", catch(|| a.clone().div_rem_euclid(&b)), &eq, &eru);
    eq_i(&mut out, "IBig /=", catch(|| { let mut x = a.clone(); x /= &b; x }), &tq);
    eq_i(&mut out, "IBig %=", catch(|| { let mut x = a.clone(); x %= b.clone(); x }), &tr);
    eq_ii(&mut out, "IBig div_rem_assign", catch(|| { let mut x = a.clone(); let r = x.div_rem_assign(&b); (x, r) }), &tq, &tr);
    match catch(|| a.is_multiple_of(&b)) {
        Ok(m) => out.check(m == ur.is_zero(), || format!("IBig::is_multiple_of = {m}, remainder zero = {}", ur.is_zero())),
        Err(m) => out.fail(format!("IBig::is_multiple_of panicked: {}", normalise(&m))),
    }

    // ---------- mixed UBig / IBig forms (value = convert both to IBig first)
    {
        let nua_i = BigInt::from(nua.clone());
        let nub_i = BigInt::from(nub.clone());
        let (mq, mr) = nua_i.div_rem(&nb);
        eq_i(&mut out, "UBig / IBig", catch(|| &ua / &b), &mq);
        eq_u(&mut out, "UBig % IBig", catch(|| ua.clone() % &b), mr.magnitude());
        eq_iu(&mut out, "UBig div_rem IBig [ref.val]", catch(|| (&ua).div_rem(b.clone())), &mq, mr.magnitude());
        eq_iu(&mut out, "UBig div_rem IBig [ref.ref]", catch(|| (&ua).div_rem(&b)), &mq, mr.magnitude());
        eq_iu(&mut out, "UBig div_rem IBig [val.ref]", catch(|| ua.clone().div_rem(&b)), &mq, mr.magnitude());
        eq_iu(&mut out, "UBig div_rem IBig [val.val]", catch(|| ua.clone().div_rem(b.clone())), &mq, mr.magnitude());
        eq_u(&mut out, "UBig %= IBig", catch(|| { let mut x = ua.clone(); x %= &b; x }), mr.magnitude());
        let (mq2, mr2) = na.div_rem(&nub_i);
        eq_i(&mut out, "IBig / UBig", catch(|| a.clone() / &ub), &mq2);
        eq_i(&mut out, "IBig % UBig", catch(|| &a % ub.clone()), &mr2);
        eq_ii(&mut out, "IBig div_rem UBig [ref.ref]", catch(|| (&a).div_rem(&ub)), &mq2, &mr2);
        eq_ii(&mut out, "IBig div_rem UBig [ref.val]", catch(|| (&a).div_rem(ub.clone())), &mq2, &mr2);
        eq_ii(&mut out, "IBig div_rem UBig [val.ref]", catch(|| a.clone().div_rem(&ub)), &mq2, &mr2);
        eq_ii(&mut out, "IBig div_rem UBig [val.val]", catch(|| a.clone().div_rem(ub.clone())), &mq2, &mr2);
        eq_i(&mut out, "IBig /= UBig", catch(|| { let mut x = a.clone(); x /= &ub; x }), &mq2);
        eq_i(&mut out, "IBig %= UBig", catch(|| { let mut x = a.clone(); x %= ub.clone(); x }), &mr2);
    }

    // ---------- the division forms of num_integer::Integer (cargo feature num-integer): floored
    // division, judged by the same trait implemented for num-bigint's integers
    {
        use num_integer::Integer as NI;
        let (fq, fr) = (NI::div_floor(&na, &nb), NI::mod_floor(&na, &nb));
        if na.is_negative() != nb.is_negative() && !tr.is_zero() {
            out.label("floor: differs from truncation");
            if tq.is_zero() {
                out.label("floor: truncated quotient 0, floored quotient -1");
            }
        }
        eq_i(&mut out, "num_integer::Integer::div_floor (IBig)", catch(|| NI::div_floor(&a, &b)), &fq);
        eq_i(&mut out, "num_integer::Integer::mod_floor (IBig)", catch(|| NI::mod_floor(&a, &b)), &fr);
        eq_ii(&mut out, "num_integer::Integer::div_mod_floor (IBig)", catch(|| NI::div_mod_floor(&a, &b)), &fq, &fr);
        eq_ii(&mut out, "num_integer::Integer::div_rem (IBig)", catch(|| NI::div_rem(&a, &b)), &tq, &tr);
        eq_u(&mut out, "num_integer::Integer::div_floor (UBig)", catch(|| NI::div_floor(&ua, &ub)), &uq);
        eq_u(&mut out, "num_integer::Integer::mod_floor (UBig)", catch(|| NI::mod_floor(&ua, &ub)), &ur);
        eq_uu(&mut out, "num_integer::Integer::div_mod_floor (UBig)", catch(|| NI::div_mod_floor(&ua, &ub)), &uq, &ur);
        eq_uu(&mut out, "num_integer::Integer::div_rem (UBig)", catch(|| NI::div_rem(&ua, &ub)), &uq, &ur);
        match catch(|| (NI::is_multiple_of(&a, &b), NI::is_multiple_of(&ua, &ub), NI::is_even(&a), NI::is_odd(&a), NI::is_even(&ua), NI::is_odd(&ua))) {
            Ok(g) => {
                let want = (tr.is_zero(), ur.is_zero(), NI::is_even(&na), NI::is_odd(&na), NI::is_even(&nua), NI::is_odd(&nua));
                out.check(g == want, || format!("num_integer::Integer is_multiple_of / is_even / is_odd: got {g:?} want {want:?}"));
            }
            Err(m) => out.fail(format!("num_integer::Integer predicates panicked: {}", normalise(&m))),
        }
    }

    // ---------- ConstDivisor built from the same divisor
    match catch(|| ConstDivisor::new(ub.clone())) {
        Err(m) => out.fail(format!("ConstDivisor::new panicked: {}", normalise(&m))),
        Ok(cd) => {
            eq_u(&mut out, "ConstDivisor::value", catch(|| cd.value()), &nub);
            eq_u(&mut out, "UBig / &ConstDivisor", catch(|| ua.clone() / &cd), &uq);
            eq_u(&mut out, "&UBig / &ConstDivisor", catch(|| &ua / &cd), &uq);
            eq_u(&mut out, "UBig % &ConstDivisor", catch(|| ua.clone() % &cd), &ur);
            eq_u(&mut out, "&UBig % &ConstDivisor", catch(|| &ua % &cd), &ur);
            eq_uu(&mut out, "UBig div_rem &ConstDivisor", catch(|| ua.clone().div_rem(&cd)), &uq, &ur);
            eq_uu(&mut out, "&UBig div_rem &ConstDivisor", catch(|| (&ua).div_rem(&cd)), &uq, &ur);
            eq_u(&mut out, "UBig /= &ConstDivisor", catch(|| { let mut x = ua.clone(); x /= &cd; x }), &uq);
            eq_u(&mut out, "UBig %= &ConstDivisor", catch(|| { let mut x = ua.clone(); x %= &cd; x }), &ur);
            eq_uu(&mut out, "UBig div_rem_assign &ConstDivisor", catch(|| { let mut x = ua.clone(); let r = x.div_rem_assign(&cd); (x, r) }), &uq, &ur);
            // IBig by ConstDivisor: same as dividing by the (positive) value
            let nub_i = BigInt::from(nub.clone());
            let (cq, cr) = na.div_rem(&nub_i);
            eq_i(&mut out, "IBig / &ConstDivisor", catch(|| a.clone() / &cd), &cq);
            eq_i(&mut out, "&IBig / &ConstDivisor", catch(|| &a / &cd), &cq);
            eq_i(&mut out, "IBig % &ConstDivisor", catch(|| a.clone() % &cd), &cr);
            eq_i(&mut out, "&IBig % &ConstDivisor", catch(|| &a % &cd), &cr);
            eq_ii(&mut out, "IBig div_rem &ConstDivisor", catch(|| a.clone().div_rem(&cd)), &cq, &cr);
            eq_ii(&mut out, "&IBig div_rem &ConstDivisor", catch(|| (&a).div_rem(&cd)), &cq, &cr);
            eq_i(&mut out, "IBig /= &ConstDivisor", catch(|| { let mut x = a.clone(); x /= &cd; x }), &cq);
            eq_i(&mut out, "IBig %= &ConstDivisor", catch(|| { let mut x = a.clone(); x %= &cd; x }), &cr);
            eq_ii(&mut out, "IBig div_rem_assign &ConstDivisor", catch(|| { let mut x = a.clone(); let r = x.div_rem_assign(&cd); (x, r) }), &cq, &cr);
            if lb == 1 {
                let w = c.b.mag.0[0];
                eq_u(&mut out, "UBig % ConstDivisor::from_word", catch(|| &ua % &ConstDivisor::from_word(w)), &ur);
            }
            if lb <= 2 {
                let d: u128 = c.b.mag.0.first().copied().unwrap_or(0) as u128 | ((c.b.mag.0.get(1).copied().unwrap_or(0) as u128) << 64);
                eq_uu(&mut out, "UBig div_rem ConstDivisor::from_dword", catch(|| (&ua).div_rem(&ConstDivisor::from_dword(d))), &uq, &ur);
            }
        }
    }
    out
}

fn must_panic<T>(out: &mut Out, what: &str, r: Result<T, String>) {
    match r {
        Ok(_) => out.fail(format!("{what}: division by zero returned a value instead of panicking")),
        Err(m) => {
            if !m.contains("divi") {
                out.fail(format!("{what}: panicked, but not with the documented divide-by-zero message: {}", normalise(&m)));
            }
        }
    }
}

fn by_zero(c: &Int, _ctx: &Ctx) -> Out {
    let mut out = Out::new();
    out.nontrivial(true);
    out.label(gen::repr_class(c.mag.trimmed_len()));
    let (ua, a) = (c.mag.ubig(), c.ibig());
    let (uz, z) = (UBig::ZERO, IBig::ZERO);
    must_panic(&mut out, "UBig / 0", catch(|| &ua / &uz));
    must_panic(&mut out, "UBig / 0 val", catch(|| ua.clone() / uz.clone()));
    must_panic(&mut out, "UBig % 0", catch(|| &ua % &uz));
    must_panic(&mut out, "UBig % 0 val", catch(|| ua.clone() % uz.clone()));
    must_panic(&mut out, "UBig div_rem 0", catch(|| (&ua).div_rem(&uz)));
    must_panic(&mut out, "UBig div_euclid 0", catch(|| (&ua).div_euclid(&uz)));
    must_panic(&mut out, "UBig rem_euclid 0", catch(|| (&ua).rem_euclid(&uz)));
    must_panic(&mut out, "UBig div_rem_euclid 0", catch(|| (&ua).div_rem_euclid(&uz)));
    must_panic(&mut out, "UBig /= 0", catch(|| { let mut x = ua.clone(); x /= &uz; x }));
    must_panic(&mut out, "UBig %= 0", catch(|| { let mut x = ua.clone(); x %= &uz; x }));
    must_panic(&mut out, "UBig div_rem_assign 0", catch(|| { let mut x = ua.clone(); x.div_rem_assign(&uz) }));
    must_panic(&mut out, "UBig is_multiple_of 0", catch(|| ua.is_multiple_of(&uz)));
    must_panic(&mut out, "IBig / 0", catch(|| &a / &z));
    must_panic(&mut out, "IBig % 0", catch(|| &a % &z));
    must_panic(&mut out, "IBig % 0 val", catch(|| a.clone() % z.clone()));
    must_panic(&mut out, "IBig div_rem 0", catch(|| (&a).div_rem(&z)));
    must_panic(&mut out, "IBig div_euclid 0", catch(|| (&a).div_euclid(&z)));
    must_panic(&mut out, "IBig rem_euclid 0", catch(|| (&a).rem_euclid(&z)));
    must_panic(&mut out, "IBig div_rem_euclid 0", catch(|| (&a).div_rem_euclid(&z)));
    must_panic(&mut out, "IBig /= 0", catch(|| { let mut x = a.clone(); x /= &z; x }));
    must_panic(&mut out, "IBig is_multiple_of 0", catch(|| a.is_multiple_of(&z)));
    must_panic(&mut out, "IBig / UBig 0", catch(|| &a / &uz));
    must_panic(&mut out, "UBig / IBig 0", catch(|| &ua / &z));
    must_panic(&mut out, "UBig / 0u8", catch(|| &ua / 0u8));
    must_panic(&mut out, "UBig % 0u64", catch(|| &ua % 0u64));
    must_panic(&mut out, "IBig / 0i32", catch(|| &a / 0i32));
    must_panic(&mut out, "IBig div_rem 0i64", catch(|| (&a).div_rem(0i64)));
    must_panic(&mut out, "ConstDivisor::new(0)", catch(|| ConstDivisor::new(UBig::ZERO)));
    must_panic(&mut out, "ConstDivisor::from_word(0)", catch(|| ConstDivisor::from_word(0)));
    must_panic(&mut out, "ConstDivisor::from_dword(0)", catch(|| ConstDivisor::from_dword(0)));
    out
}

macro_rules! prim_u {
    ($out:ident, $ctx:ident, $c:ident, $t:ty) => {{
        let p = $c.p as $t;
        if p != 0 {
            let ua = $c.a.mag.ubig();
            let a = $c.a.ibig();
            let nua = $c.a.mag.big();
            let na = $c.a.big();
            let np = BigUint::from(p);
            let (q, r) = nua.div_rem(&np);
            let tname = stringify!($t);
            eq_u(&mut $out, &format!("UBig / {tname}"), catch(|| &ua / p), &q);
            eq_u(&mut $out, &format!("UBig / &{tname}"), catch(|| ua.clone() / &p), &q);
            eq_u(&mut $out, &format!("UBig /= {tname}"), catch(|| { let mut x = ua.clone(); x /= p; x }), &q);
            match catch(|| (&ua % p, ua.clone() % &p)) {
                Ok((r1, r2)) => $out.check(BigUint::from(r1) == r && BigUint::from(r2) == r, || format!("UBig % {tname}: got {r1},{r2} want {r}")),
                Err(m) => $out.fail(format!("UBig % {tname} panicked: {}", normalise(&m))),
            }
            match catch(|| (&ua).div_rem(p)) {
                Ok((gq, gr)) => $out.check(u2n(&gq) == q && BigUint::from(gr) == r, || format!("UBig div_rem {tname}: wrong")),
                Err(m) => $out.fail(format!("UBig div_rem {tname} panicked: {}", normalise(&m))),
            }
            match catch(|| { let mut x = ua.clone(); let r = x.div_rem_assign(p); (x, r) }) {
                Ok((gq, gr)) => $out.check(u2n(&gq) == q && BigUint::from(gr) == r, || format!("UBig div_rem_assign {tname}: wrong")),
                Err(m) => $out.fail(format!("UBig div_rem_assign {tname} panicked: {}", normalise(&m))),
            }
            // primitive / UBig -> primitive
            if !nua.is_zero() {
                match catch(|| p / &ua) {
                    Ok(g) => $out.check(BigUint::from(g) == &np / &nua, || format!("{tname} / UBig: got {g}")),
                    Err(m) => $out.fail(format!("{tname} / UBig panicked: {}", normalise(&m))),
                }
            }
            // IBig with an unsigned primitive: quotient always fine; remainder has the sign of a and
            // the output type is unsigned -> only representable when a >= 0 or r = 0
            let npi = BigInt::from(p);
            let (tq, tr) = na.div_rem(&npi);
            eq_i(&mut $out, &format!("IBig / {tname}"), catch(|| &a / p), &tq);
            let r1 = catch(|| &a % p);
            let r2 = catch(|| (&a).div_rem(p));
            if tr.is_negative() {
                // remainder is negative, output type unsigned: API cannot express it (finding)
                for e in [r1.as_ref().err(), r2.as_ref().err().map(|e| e)].into_iter().flatten() {
                    if e.contains("OutOfBounds") {
                        $ctx.known_or_fail(&mut $out, "C16/ibig-rem-unsigned-primitive-negative", || format!("IBig(neg) % {tname} panics: {e}"));
                    } else {
                        $out.fail(format!("IBig(neg) % {tname}: unexpected panic {}", normalise(e)));
                    }
                }
                if let Ok((gq, gr)) = &r2 { $out.fail(format!("IBig(neg).div_rem({tname}) returned ({gq}, {gr}) although the remainder {} is negative", tr)); }
                if let Ok(g) = r1 { $out.fail(format!("IBig(neg) % {tname} returned {g} although the remainder {} is negative", tr)); }
            } else {
                match r1 {
                    Ok(g) => $out.check(BigInt::from(g) == tr, || format!("IBig % {tname}: got {g} want {tr}")),
                    Err(m) => $out.fail(format!("IBig % {tname} panicked: {}", normalise(&m))),
                }
                match r2 {
                    Ok((gq, gr)) => $out.check(i2n(&gq) == tq && BigInt::from(gr) == tr, || format!("IBig div_rem {tname}: wrong")),
                    Err(m) => $out.fail(format!("IBig div_rem {tname} panicked: {}", normalise(&m))),
                }
            }
        }
    }};
}
macro_rules! prim_i {
    ($out:ident, $c:ident, $t:ty) => {{
        let p = $c.p as $t;
        if p != 0 {
            let a = $c.a.ibig();
            let na = $c.a.big();
            let npi = BigInt::from(p);
            let (tq, tr) = na.div_rem(&npi);
            let tname = stringify!($t);
            eq_i(&mut $out, &format!("IBig / {tname}"), catch(|| &a / p), &tq);
            eq_i(&mut $out, &format!("IBig / &{tname}"), catch(|| a.clone() / &p), &tq);
            eq_i(&mut $out, &format!("IBig /= {tname}"), catch(|| { let mut x = a.clone(); x /= p; x }), &tq);
            match catch(|| (&a % p, a.clone() % &p)) {
                Ok((r1, r2)) => $out.check(BigInt::from(r1) == tr && BigInt::from(r2) == tr, || format!("IBig % {tname}: got {r1},{r2} want {tr}")),
                Err(m) => $out.fail(format!("IBig % {tname} panicked: {}", normalise(&m))),
            }
            match catch(|| (&a).div_rem(p)) {
                Ok((gq, gr)) => $out.check(i2n(&gq) == tq && BigInt::from(gr) == tr, || format!("IBig div_rem {tname}: wrong")),
                Err(m) => $out.fail(format!("IBig div_rem {tname} panicked: {}", normalise(&m))),
            }
            match catch(|| { let mut x = a.clone(); let r = x.div_rem_assign(p); (x, r) }) {
                Ok((gq, gr)) => $out.check(i2n(&gq) == tq && BigInt::from(gr) == tr, || format!("IBig div_rem_assign {tname}: wrong")),
                Err(m) => $out.fail(format!("IBig div_rem_assign {tname} panicked: {}", normalise(&m))),
            }
            if !na.is_zero() {
                // primitive / IBig -> primitive (quotient magnitude <= |p|; i.MIN / -1 would overflow the type)
                let want = &npi / &na;
                match catch(|| p / &a) {
                    Ok(g) => $out.check(BigInt::from(g) == want, || format!("{tname} / IBig: got {g} want {want}")),
                    Err(m) => {
                        if BigInt::from(<$t>::MAX) >= want {
                            $out.fail(format!("{tname} / IBig panicked: {}", normalise(&m)))
                        }
                    }
                }
            }
        }
    }};
}

/// two primitive values of one type (carried as i128 bit patterns, truncated to the type)
#[derive(Debug, Clone, Hash, Serialize, Deserialize)]
struct PrimPair {
    a: i128,
    b: i128,
    width: u8,
    signed: bool,
}

fn prim_pair() -> impl Strategy<Value = PrimPair> {
    (any::<i128>(), any::<i128>(), 0u8..6, any::<bool>(), 0u8..10, 0u8..10, any::<u8>()).prop_map(|(ra, rb, width, signed, sa, sb, k)| {
        let bits = [8u32, 16, 32, 64, 128, usize::BITS][width as usize];
        let tmin = if bits == 128 { i128::MIN } else { -(1i128 << (bits - 1)) };
        let edge = |sel: u8, raw: i128| -> i128 {
            match sel {
                0 => 0,
                1 => 1,
                2 => -1,
                3 => tmin,
                4 => -(tmin + 1),
                5 => tmin + 1,
                6 => 1i128 << (k as u32 % (bits - 1)),
                7 => -(1i128 << (k as u32 % (bits - 1))),
                8 => raw % 17,
                _ => raw,
            }
        };
        let b = edge(sb, rb);
        // dividends that are exact multiples of the divisor, one off, or unrelated
        let a = match sa {
            0 | 1 if b != 0 => b.wrapping_mul((ra % 9) - 4),
            2 if b != 0 => b.wrapping_mul((ra % 9) - 4).wrapping_add(1),
            3 if b != 0 => b.wrapping_mul((ra % 9) - 4).wrapping_sub(1),
            _ => edge(sa, ra),
        };
        PrimPair { a, b, width, signed }
    })
}

/// the division traits of dashu-base on the primitive integers: same conventions as the big types
/// (truncated / Euclidean), judged by num-bigint on the mathematical values
fn prim_traits(c: &PrimPair, _ctx: &Ctx) -> Out {
    let mut out = Out::new();
    macro_rules! run {
        ($t:ty) => {{
            let (a, b) = (c.a as $t, c.b as $t);
            let (na, nb) = (BigInt::from(a), BigInt::from(b));
            let tname = stringify!($t);
            if b == 0 {
                out.label("prim-traits: zero divisor (must panic)");
                out.check(catch(|| DivRem::div_rem(a, b)).is_err(), || format!("{tname}: div_rem by zero returned"));
                out.check(catch(|| DivRemEuclid::div_rem_euclid(a, b)).is_err(), || format!("{tname}: div_rem_euclid by zero returned"));
            } else {
                let (tq, tr) = na.div_rem(&nb);
                let er = na.mod_floor(&nb.abs());
                let eq = (&na - &er) / &nb;
                let fits = |x: &BigInt| x >= &BigInt::from(<$t>::MIN) && x <= &BigInt::from(<$t>::MAX);
                out.nontrivial(na.is_negative() || nb.is_negative());
                if na.is_negative() && (&na % &nb).is_zero() {
                    out.label("prim-traits: negative dividend, exact multiple");
                }
                if !fits(&tq) || !fits(&eq) {
                    // MIN / -1: the quotient does not fit the type (overflow, as for the operators of the language)
                    out.label("prim-traits: quotient does not fit (not judged)");
                } else {
                    match catch(|| DivRem::div_rem(a, b)) {
                        Ok((q, r)) => out.check(BigInt::from(q) == tq && BigInt::from(r) == tr, || format!("{tname}: DivRem::div_rem({a}, {b}) = ({q}, {r}) want ({tq}, {tr})")),
                        Err(m) => out.fail(format!("{tname}: DivRem::div_rem({a}, {b}) panicked: {}", normalise(&m))),
                    }
                    match catch(|| { let mut x = a; let r = DivRemAssign::div_rem_assign(&mut x, b); (x, r) }) {
                        Ok((q, r)) => out.check(BigInt::from(q) == tq && BigInt::from(r) == tr, || format!("{tname}: div_rem_assign({a}, {b}) = ({q}, {r}) want ({tq}, {tr})")),
                        Err(m) => out.fail(format!("{tname}: div_rem_assign({a}, {b}) panicked: {}", normalise(&m))),
                    }
                    match catch(|| (DivEuclid::div_euclid(a, b), RemEuclid::rem_euclid(a, b), DivRemEuclid::div_rem_euclid(a, b))) {
                        Ok((q1, r1, (q2, r2))) => out.check(
                            BigInt::from(q1) == eq && BigInt::from(r1) == er && BigInt::from(q2) == eq && BigInt::from(r2) == er,
                            || format!("{tname}: Euclidean division of {a} by {b}: div_euclid {q1}, rem_euclid {r1}, div_rem_euclid ({q2}, {r2}); want ({eq}, {er})"),
                        ),
                        Err(m) => out.fail(format!("{tname}: Euclidean division of {a} by {b} panicked: {}", normalise(&m))),
                    }
                }
            }
        }};
    }
    match (c.signed, c.width) {
        (false, 0) => run!(u8),
        (false, 1) => run!(u16),
        (false, 2) => run!(u32),
        (false, 3) => run!(u64),
        (false, 4) => run!(u128),
        (false, _) => run!(usize),
        (true, 0) => run!(i8),
        (true, 1) => run!(i16),
        (true, 2) => run!(i32),
        (true, 3) => run!(i64),
        (true, 4) => run!(i128),
        (true, _) => run!(isize),
    }
    out.label(if c.signed { "prim-traits: signed" } else { "prim-traits: unsigned" });
    out
}

fn prim_div(c: &PrimDiv, ctx: &Ctx) -> Out {
    let mut out = Out::new();
    out.nontrivial(c.p != 0 && !c.a.mag.is_zero());
    out.label(gen::repr_class(c.a.mag.trimmed_len()));
    out.label(if c.a.neg { "dividend:negative" } else { "dividend:non-negative" });
    match c.width {
        0 => { out.label("prim:8"); prim_u!(out, ctx, c, u8); prim_i!(out, c, i8); }
        1 => { out.label("prim:16"); prim_u!(out, ctx, c, u16); prim_i!(out, c, i16); }
        2 => { out.label("prim:32"); prim_u!(out, ctx, c, u32); prim_i!(out, c, i32); }
        3 => { out.label("prim:64"); prim_u!(out, ctx, c, u64); prim_i!(out, c, i64); }
        4 => { out.label("prim:128"); prim_u!(out, ctx, c, u128); prim_i!(out, c, i128); }
        _ => { out.label("prim:size"); prim_u!(out, ctx, c, usize); prim_i!(out, c, isize); }
    }
    out
}

fn main() {
    let mut ck = Check::new(
        "C02",
        "dividends built by construction a = q·b + r from divisor classes (1 word: 1, 2^k, MAX, random; 2 words incl. 2^64..2^127 and (un)normalised; 3-32; 33-34; 35-80; thorough to 2000 words) × quotient length classes (0, 1, 2, 3-30, 31-34, 35-70) × r ∈ {0, 1, b-1, random} plus top-word-correction dividends b·2^(64k)−1 and divide-and-conquer dividends (b_hi·q0)·2^(64·l) whose partial remainder is zero when the correction product q0·b_lo — chunked operands: random / low third only / zero / all ones, divisors of 66..900 and 2073..2200 words — is subtracted, all sign combinations; every division form (/, %, div_rem, Euclidean, assign, mixed UBig/IBig, primitives on either side with the extreme values of each type and operands of the same / neighbouring magnitude, the division traits of dashu-base on the primitive types themselves, is_multiple_of(_const), ConstDivisor) compared with the identity evaluated in num-bigint; zero divisors must panic. Non-trivial: divisor >= 2 words and quotient != 0 (primitive sub: both non-zero); distinct by case digest.",
    );
    let th = ck.thorough();
    ck.sub("division_small", (60_000, 1_200_000), || div_case(8, 8), division);
    ck.sub("division_medium", (25_000, 500_000), || div_case(80, 70), division);
    ck.sub("division_large", (if th { 0 } else { 300 }, 20_000), || div_case(2000, 2000), division);
    ck.sub("division_dc_zero_remainder", (400, 12_000), dc_case, division);
    ck.sub("by_zero", (3_000, 30_000), || gen::int(Prof::Medium), by_zero);
    ck.sub(
        "prim_div",
        (40_000, 800_000),
        || {
            (gen::int(Prof::Small), any::<i128>(), 0u8..6, 0u8..10, 0u8..10, any::<bool>(), any::<u8>()).prop_map(|(a, p, width, shape, rel, neg, k)| {
                // the extreme values of the primitive type of this width (the case keeps p as an
                // i128; `p as $t` in the macros is the identity for them)
                let bits = [8u32, 16, 32, 64, 128, usize::BITS][width as usize];
                let tmin = if bits == 128 { i128::MIN } else { -(1i128 << (bits - 1)) };
                let tmax = -(tmin + 1);
                let p = match shape {
                    0 => 1,
                    1 => -1,
                    2 => tmax,
                    3 => tmin,
                    4 => 2,
                    5 => tmin + 1,
                    6 => 1i128 << (k as u32 % (bits - 1)),
                    _ => p,
                };
                // the big operand next to the primitive: same magnitude, one off, the type's 2^(N-1), 2^N
                let from_u128 = |m: u128, extra: bool| -> Nat { let mut w = vec![m as u64, (m >> 64) as u64]; if extra { w.push(1); } Nat(w) };
                let pm = p.unsigned_abs();
                let a = match rel {
                    5 => Int { neg, mag: from_u128(pm, false) },
                    6 => Int { neg, mag: from_u128(if k & 1 == 0 { pm.wrapping_add(1) } else { pm.wrapping_sub(1) }, false) },
                    7 => Int { neg, mag: from_u128(tmin.unsigned_abs(), false) },
                    8 => Int { neg, mag: if bits == 128 { from_u128(0, true) } else { from_u128(1u128 << bits, false) } },
                    9 => Int { neg, mag: from_u128(tmin.unsigned_abs() + 1, false) },
                    _ => a,
                };
                let a = if a.mag.is_zero() { Int { neg: false, mag: a.mag } } else { a };
                PrimDiv { a, p, width }
            })
        },
        prim_div,
    );
    ck.sub("prim_traits", (30_000, 600_000), prim_pair, prim_traits);
    ck.finish();
}
