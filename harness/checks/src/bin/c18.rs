//! C18 — rational approximation functions return the optimal fraction they promise
//! (brute force + independent Stern–Brocot descent, Farey neighbours, own IEEE / FBig rounding).
use dashu_base::{Approximation, Sign};
use dashu_float::round::{mode, ErrorBounds};
use dashu_float::FBig;
use dashu_int::Word;
use dashu_ratio::RBig;
use dv::fl::*;
use dv::gen::{self, pick, Prof, SplitMix};
use dv::*;
use num_bigint::{BigInt, BigUint};
use num_integer::Integer;
use num_rational::BigRational;
use num_traits::{One, Signed, Zero};
use proptest::prelude::*;
use serde::{Deserialize, Serialize};
use std::cmp::Ordering;

type Q = BigRational;

// ---------------------------------------------------------------------------------------------
// plain-data rationals

#[derive(Debug, Clone, Hash, PartialEq, Eq, Serialize, Deserialize)]
struct Rat {
    n: Int,
    d: Nat,
}

impl Rat {
    fn den(&self) -> BigUint {
        let d = self.d.big();
        if d.is_zero() {
            BigUint::one()
        } else {
            d
        }
    }
    fn q(&self) -> Q {
        Q::new(self.n.big(), BigInt::from(self.den()))
    }
    fn rbig(&self) -> RBig {
        RBig::from_parts(self.n.ibig(), n2u(&self.den()))
    }
    fn from_q(q: &Q) -> Rat {
        Rat { n: Int::from_big(q.numer()), d: Nat::from_big(q.denom().magnitude()) }
    }
    fn small(n: i64, d: u64) -> Rat {
        Rat { n: Int::from_i128(n as i128), d: Nat(vec![d.max(1)]) }
    }
}

fn r2q(r: &RBig) -> Q {
    rat(r.numerator(), r.denominator())
}
fn qi(n: i64) -> Q {
    Q::from_integer(BigInt::from(n))
}
fn qn(n: &BigInt) -> Q {
    Q::from_integer(n.clone())
}
fn show_q(q: &Q) -> String {
    let s = format!("{}/{}", q.numer(), q.denom());
    if s.len() > 150 {
        format!("{}..[{} chars]", &s[..60], s.len())
    } else {
        s
    }
}

// ---------------------------------------------------------------------------------------------
// reference: the documented simplicity order, brute force, Stern–Brocot descent

/// documented order: smaller denominator, then smaller |numerator|, then positive before negative
fn simpler(a: &Q, b: &Q) -> bool {
    if a.denom() != b.denom() {
        return a.denom() < b.denom();
    }
    let (na, nb) = (a.numer().abs(), b.numer().abs());
    if na != nb {
        return na < nb;
    }
    a.is_positive() && b.is_negative()
}

#[derive(Clone, Debug, PartialEq)]
struct Iv {
    lo: Q,
    hi: Q,
    lc: bool,
    hc: bool,
}

impl Iv {
    fn open(a: &Q, b: &Q) -> Iv {
        if a <= b {
            Iv { lo: a.clone(), hi: b.clone(), lc: false, hc: false }
        } else {
            Iv { lo: b.clone(), hi: a.clone(), lc: false, hc: false }
        }
    }
    fn contains(&self, x: &Q) -> bool {
        (x > &self.lo || (self.lc && x == &self.lo)) && (x < &self.hi || (self.hc && x == &self.hi))
    }
    fn is_empty(&self) -> bool {
        self.lo > self.hi || (self.lo == self.hi && !(self.lc && self.hc))
    }
    fn has_integer(&self) -> bool {
        let n0 = if self.lc { self.lo.ceil() } else { self.lo.floor() + qi(1) };
        self.contains(&n0)
    }
    fn show(&self) -> String {
        format!("{}{}, {}{}", if self.lc { "[" } else { "(" }, show_q(&self.lo), show_q(&self.hi), if self.hc { "]" } else { ")" })
    }
}

/// first denominator d = 1, 2, … with a fraction inside; among those the smallest |n|
fn simplest_brute(iv: &Iv, max_d: u64) -> Option<Q> {
    if iv.is_empty() {
        return None;
    }
    for d in 1..=max_d {
        let dq = qi(d as i64);
        let lo_s = &iv.lo * &dq;
        let hi_s = &iv.hi * &dq;
        let nmin = if iv.lc { lo_s.ceil().to_integer() } else { lo_s.floor().to_integer() + 1 };
        let nmax = if iv.hc { hi_s.floor().to_integer() } else { hi_s.ceil().to_integer() - 1 };
        if nmin <= nmax {
            let n = if !nmin.is_positive() && !nmax.is_negative() {
                BigInt::zero()
            } else if nmin.is_positive() {
                nmin
            } else {
                nmax
            };
            return Some(Q::new(n, BigInt::from(d)));
        }
    }
    None
}

/// Stern–Brocot descent with run-length steps; the interval lies in x >= 0 and does not contain 0.
fn simplest_sb_pos(iv: &Iv) -> Q {
    let (p, q) = (iv.lo.numer().clone(), iv.lo.denom().clone());
    let (r, s) = (iv.hi.numer().clone(), iv.hi.denom().clone());
    // a/b is left of the whole interval, c/d (possibly 1/0) right of it
    let (mut a, mut b, mut c, mut d) = (BigInt::zero(), BigInt::one(), BigInt::one(), BigInt::zero());
    loop {
        let (mn, md) = (&a + &c, &b + &d);
        let vs_lo = (&mn * &q).cmp(&(&p * &md));
        if vs_lo == Ordering::Less || (vs_lo == Ordering::Equal && !iv.lc) {
            // largest k with (a+kc)/(b+kd) still left of the interval
            let den = &c * &q - &p * &d;
            let num = &p * &b - &a * &q;
            let k = if iv.lc { (num - BigInt::one()).div_floor(&den) } else { num.div_floor(&den) };
            assert!(k.is_positive());
            a += &k * &c;
            b += &k * &d;
            continue;
        }
        let vs_hi = (&mn * &s).cmp(&(&r * &md));
        if vs_hi == Ordering::Greater || (vs_hi == Ordering::Equal && !iv.hc) {
            let den = &r * &b - &a * &s;
            let num = &c * &s - &r * &d;
            let k = if iv.hc { (num - BigInt::one()).div_floor(&den) } else { num.div_floor(&den) };
            assert!(k.is_positive());
            c += &k * &a;
            d += &k * &b;
            continue;
        }
        return Q::new(mn, md);
    }
}

fn simplest_sb(iv: &Iv) -> Option<Q> {
    if iv.is_empty() {
        return None;
    }
    let zero = Q::zero();
    if iv.contains(&zero) {
        return Some(zero);
    }
    if iv.hi <= zero {
        let m = Iv { lo: -&iv.hi, hi: -&iv.lo, lc: iv.hc, hc: iv.lc };
        return Some(-simplest_sb_pos(&m));
    }
    Some(simplest_sb_pos(iv))
}

/// `RBig::simplest_in` as it is coded today: open interval, but an endpoint equal to 0 next to a
/// negative endpoint makes it return 0 (finding C18/simplest-in-zero-endpoint)
fn zero_endpoint_class(a: &Q, b: &Q) -> bool {
    (a.is_zero() && b.is_negative()) || (b.is_zero() && a.is_negative())
}
fn simplest_in_as_coded(a: &Q, b: &Q, zero_quirk: bool) -> Q {
    if zero_quirk && zero_endpoint_class(a, b) {
        return Q::zero();
    }
    if a == b {
        return a.clone();
    }
    simplest_sb(&Iv::open(a, b)).unwrap()
}
/// What `simplest_from_*` computes from the interval `iv` it derived: `simplest_in` on the open
/// interval, then the end points flagged as included are considered — with `select` = false they
/// never win (today: is_simpler_than is never true for two numbers of the same sign).
fn coded_result(iv: &Iv, select: bool, zero_quirk: bool) -> Q {
    if iv.lo == iv.hi {
        return iv.lo.clone();
    }
    let mut best = simplest_in_as_coded(&iv.lo, &iv.hi, zero_quirk);
    if select && iv.lc && simpler(&iv.lo, &best) {
        best = iv.lo.clone();
    }
    if select && iv.hc && simpler(&iv.hi, &best) {
        best = iv.hi.clone();
    }
    best
}
/// is `got` what the code computes from `iv`, with or without the two independent findings
/// (end-point selection, zero end point) repaired?
fn explained_by(iv: &Iv, got: &Q) -> bool {
    [(false, true), (true, true), (false, false), (true, false)].iter().any(|(sel, zq)| &coded_result(iv, *sel, *zq) == got)
}

// ---------------------------------------------------------------------------------------------
// reference: Farey neighbours

/// smallest fraction > x with denominator <= limit; also the number of single mediant steps a
/// plain (non-accelerated) Stern–Brocot walk would take
fn farey_succ(x: &Q, limit: &BigInt) -> (Q, BigInt) {
    let fl = x.floor().to_integer();
    let (p, q) = (x.numer().clone(), x.denom().clone());
    // l <= x < u, adjacent
    let (mut ln, mut ld, mut un, mut ud) = (fl.clone(), BigInt::one(), fl + 1, BigInt::one());
    let mut steps = BigInt::zero();
    loop {
        if &ld + &ud > *limit {
            break;
        }
        let (mn, md) = (&ln + &un, &ld + &ud);
        let k;
        if &mn * &q <= &p * &md {
            let den = &un * &q - &p * &ud;
            let num = &p * &ld - &ln * &q;
            k = num.div_floor(&den).min((limit - &ld).div_floor(&ud));
            assert!(k.is_positive());
            ln += &k * &un;
            ld += &k * &ud;
        } else {
            let den = &p * &ld - &ln * &q;
            let num = &un * &q - &p * &ud;
            let cap = (limit - &ud).div_floor(&ld);
            k = if den.is_zero() { cap } else { { let nm: BigInt = num - BigInt::one(); nm.div_floor(&den).min(cap) } };
            assert!(k.is_positive());
            un += &k * &ln;
            ud += &k * &ld;
        }
        steps += k;
    }
    (Q::new(un, ud), steps)
}
fn farey_pred(x: &Q, limit: &BigInt) -> (Q, BigInt) {
    let (s, n) = farey_succ(&-x, limit);
    (-s, n)
}
fn farey_succ_brute(x: &Q, limit: u64) -> Q {
    let mut best: Option<Q> = None;
    for d in 1..=limit {
        let c = Q::new((x * qi(d as i64)).floor().to_integer() + 1, BigInt::from(d));
        if best.as_ref().map_or(true, |b| &c < b) {
            best = Some(c);
        }
    }
    best.unwrap()
}
/// third route: r = c/d is the successor of x in F_limit iff r > x, d <= limit and the Farey
/// predecessor a/b of r (bc − ad = 1, b <= limit maximal; extended Euclid) is <= x
fn is_farey_succ_euclid(x: &Q, r: &Q, limit: &BigInt) -> bool {
    let (c, d) = (r.numer().clone(), r.denom().clone());
    if r <= x || &d > limit {
        return false;
    }
    // b ≡ c^{-1} (mod d)
    let eg = c.extended_gcd(&d);
    if !eg.gcd.is_one() {
        return false;
    }
    let b0 = eg.x.mod_floor(&d);
    // largest b = b0 + t·d <= limit, b >= 1
    let t = (limit - &b0).div_floor(&d);
    let b = &b0 + &t * &d;
    if !b.is_positive() {
        return false;
    }
    let a = (&b * &c - 1) / &d;
    Q::new(a, b) <= *x
}

// ---------------------------------------------------------------------------------------------
// reference: IEEE binary formats, round-to-nearest-even on rationals (integer arithmetic only)

struct Ieee {
    name: &'static str,
    mant_bits: u32,
    emin: i64,
    emax: i64,
    width: u32,
}
const F32: Ieee = Ieee { name: "f32", mant_bits: 23, emin: -126, emax: 127, width: 32 };
const F64: Ieee = Ieee { name: "f64", mant_bits: 52, emin: -1022, emax: 1023, width: 64 };

fn q2pow(k: i64) -> Q {
    if k >= 0 {
        Q::from_integer(BigInt::one() << (k as usize))
    } else {
        Q::new(BigInt::one(), BigInt::one() << ((-k) as usize))
    }
}

impl Ieee {
    fn bias(&self) -> i64 {
        self.emax
    }
    fn sign_bit(&self) -> u64 {
        1u64 << (self.width - 1)
    }
    fn inf_bits(&self) -> u64 {
        (((1u64 << (self.width - 1 - self.mant_bits)) - 1) << self.mant_bits) as u64
    }
    /// value of a non-negative finite bit pattern
    fn mag_value(&self, mbits: u64) -> Q {
        let e = (mbits >> self.mant_bits) as i64;
        let f = mbits & ((1u64 << self.mant_bits) - 1);
        if e == 0 {
            qn(&BigInt::from(f)) * q2pow(self.emin - self.mant_bits as i64)
        } else {
            qn(&BigInt::from(f | (1u64 << self.mant_bits))) * q2pow(e - self.bias() - self.mant_bits as i64)
        }
    }
    /// round-to-nearest-even of a rational: bit pattern (overflow gives the infinity pattern)
    fn rne(&self, x: &Q) -> u64 {
        if x.is_zero() {
            return 0;
        }
        let sign = if x.is_negative() { self.sign_bit() } else { 0 };
        let a = x.abs();
        // e = floor(log2 a)
        let mut e = a.numer().bits() as i64 - a.denom().bits() as i64;
        while q2pow(e) > a {
            e -= 1;
        }
        while q2pow(e + 1) <= a {
            e += 1;
        }
        let mut ee = e.max(self.emin);
        let scaled = &a * q2pow(self.mant_bits as i64 - ee);
        let fl = scaled.floor().to_integer();
        let rem = &scaled - qn(&fl);
        let half = Q::new(BigInt::one(), BigInt::from(2));
        let mut m = match rem.cmp(&half) {
            Ordering::Less => fl,
            Ordering::Greater => fl + 1,
            Ordering::Equal => {
                if fl.is_even() {
                    fl
                } else {
                    fl + 1
                }
            }
        };
        let top = BigInt::one() << (self.mant_bits as usize + 1);
        if m == top {
            m >>= 1;
            ee += 1;
        }
        if ee > self.emax {
            return sign | self.inf_bits();
        }
        let m: u64 = u64::try_from(m).unwrap();
        let hidden = 1u64 << self.mant_bits;
        if m < hidden {
            sign | m
        } else {
            sign | (((ee + self.bias()) as u64) << self.mant_bits) | (m - hidden)
        }
    }
    /// exact set of reals that round (RNE) to the finite non-zero pattern `bits`
    fn rounding_interval(&self, bits: u64) -> Iv {
        let neg = bits & self.sign_bit() != 0;
        let mbits = bits & !self.sign_bit();
        let v = self.mag_value(mbits);
        let pred = self.mag_value(mbits - 1);
        let succ = if mbits + 1 == self.inf_bits() { q2pow(self.emax + 1) } else { self.mag_value(mbits + 1) };
        let two = qi(2);
        let (lo, hi) = ((&pred + &v) / &two, (&v + &succ) / &two);
        let closed = mbits & 1 == 0;
        if neg {
            Iv { lo: -hi, hi: -lo, lc: closed, hc: closed }
        } else {
            Iv { lo, hi, lc: closed, hc: closed }
        }
    }
    /// decoded exponent of the unreduced mantissa·2^exp form
    fn decoded_exp(&self, mbits: u64) -> i64 {
        let e = (mbits >> self.mant_bits) as i64;
        if e == 0 {
            self.emin - self.mant_bits as i64
        } else {
            e - self.bias() - self.mant_bits as i64
        }
    }
    /// the interval `impl_simplest_from_float!` works on: value ± 1/(2·denominator) of the
    /// mantissa·2^exp form, i.e. ± 2^(exp − 1) for exp <= 0 but ± 1/2 for every exp >= 0
    fn coded_interval(&self, bits: u64) -> Iv {
        let neg = bits & self.sign_bit() != 0;
        let mbits = bits & !self.sign_bit();
        let v = self.mag_value(mbits);
        let h = q2pow(self.decoded_exp(mbits).min(0) - 1);
        let closed = mbits & 1 == 0;
        let (lo, hi) = (&v - &h, &v + &h);
        if neg {
            Iv { lo: -hi, hi: -lo, lc: closed, hc: closed }
        } else {
            Iv { lo, hi, lc: closed, hc: closed }
        }
    }
}

// ---------------------------------------------------------------------------------------------
// reference: rounding of a rational to p digits in base B (definition of the six modes)

fn qpow(base: u64, k: i64) -> Q {
    if k >= 0 {
        Q::from_integer(BigInt::from(bpow(base, k as u64)))
    } else {
        Q::new(BigInt::one(), BigInt::from(bpow(base, (-k) as u64)))
    }
}
fn floor_log(x: &Q, base: u64) -> i64 {
    Sci::from_rational(&x.abs(), base).floor_log()
}
fn round_p(x: &Q, base: u64, p: u64, mode: Mode) -> Q {
    if x.is_zero() {
        return Q::zero();
    }
    let scale = qpow(base, floor_log(x, base) - p as i64 + 1);
    qn(&round_rational(&(x / &scale), mode)) * scale
}

/// the exact set of reals x with round_p(x) = v (v != 0 has at most p digits)
fn true_interval(v: &Q, base: u64, p: u64, mode: Mode) -> (Iv, bool) {
    let a = v.abs();
    let neg = v.is_negative();
    let u = qpow(base, floor_log(&a, base) - p as i64 + 1);
    let m = &a / &u;
    assert!(m.is_integer());
    let pw = m.to_integer() == BigInt::from(bpow(base, p - 1));
    // distance to the neighbour of smaller magnitude
    let d = if pw { &u / qi(base as i64) } else { u.clone() };
    let two = qi(2);
    let (mlo, mhi) = match (mode, neg) {
        (Mode::Zero, _) | (Mode::Down, false) | (Mode::Up, true) => (a.clone(), &a + &u),
        (Mode::Away, _) | (Mode::Down, true) | (Mode::Up, false) => (&a - &d, a.clone()),
        _ => (&a - &d / &two, &a + &u / &two),
    };
    let (lo, hi) = if neg { (-mhi, -mlo) } else { (mlo, mhi) };
    let lc = round_p(&lo, base, p, mode) == *v;
    let hc = round_p(&hi, base, p, mode) == *v;
    (Iv { lo, hi, lc, hc }, pw)
}

// ---------------------------------------------------------------------------------------------
// simplest_in

#[derive(Debug, Clone, Hash, Serialize, Deserialize)]
struct SimplestCase {
    l: Rat,
    u: Rat,
}

fn small_interval() -> impl Strategy<Value = SimplestCase> {
    (0u8..12, -60i64..=60, 1u64..=40, -60i64..=60, 1u64..=40, 1u64..=50).prop_map(|(class, n1, d1, n2, d2, k)| {
        let (l, u) = match class {
            0 | 1 | 2 => (Rat::small(n1, d1), Rat::small(n2, d2)),
            3 => (Rat::small(n1, d1), Rat::small(n1, d1)),
            4 => (Rat::small(n1, d1), Rat::small(0, 1)),
            5 => (Rat::small(0, 1), Rat::small(n2, d2)),
            6 => (Rat::small(n1, 1), Rat::small(n2, 1)),
            7 => (Rat::small(-n1.abs(), d1), Rat::small(n2.abs(), d2)),
            8 => (Rat::small(-n1.abs() - 1, d1), Rat::small(-n2.abs() - 1, d2)),
            9 => {
                // u = l + 1/(d1·k): close endpoints
                let q = Rat::small(n1, d1).q() + Q::new(BigInt::one(), BigInt::from(d1 * k));
                (Rat::small(n1, d1), Rat::from_q(&q))
            }
            10 => {
                // integer endpoint and a near neighbour
                let q = qi(n1) + Q::new(BigInt::from(if n2 < 0 { -1 } else { 1 }), BigInt::from(d2));
                (Rat::small(n1, 1), Rat::from_q(&q))
            }
            _ => {
                // unit interval pieces: both endpoints in [0,1] (pure fractional descent)
                (Rat::small(n1.rem_euclid(d1 as i64), d1), Rat::small(n2.rem_euclid(d2 as i64), d2))
            }
        };
        SimplestCase { l, u }
    })
}

/// continued fraction [t0; t1, t2, …] as a rational
fn cf_value(terms: &[u64]) -> Q {
    let mut it = terms.iter().rev();
    let mut v = match it.next() {
        Some(t) => Q::from_integer(BigInt::from(*t)),
        None => return Q::zero(),
    };
    for t in it {
        v = Q::from_integer(BigInt::from(*t)) + v.recip();
    }
    v
}

fn cf_terms(seed: u64, n: usize, big: bool) -> Vec<u64> {
    let mut r = SplitMix(seed);
    (0..n)
        .map(|i| {
            let c = r.below(16);
            let t = match c {
                0..=7 => 1 + r.below(4),
                8..=12 => 1 + r.below(40),
                13 | 14 => 1 + r.below(3000),
                _ => {
                    if big {
                        1 + (r.next() >> r.below(50))
                    } else {
                        1 + r.below(3000)
                    }
                }
            };
            if i == 0 {
                t - 1 + r.below(2)
            } else {
                t
            }
        })
        .collect()
}

fn big_interval() -> impl Strategy<Value = SimplestCase> {
    (0u8..10, gen::int(Prof::Small), gen::nat_nz(Prof::Small), gen::nat_nz(Prof::Small), any::<u64>(), 1usize..40, any::<bool>(), any::<bool>()).prop_map(
        |(class, n, d, huge, seed, len, negate, swap)| {
            let base = Rat { n: n.clone(), d: d.clone() }.q();
            let eps = Q::new(BigInt::one(), BigInt::from(huge.big()));
            let (mut l, mut u) = match class {
                // very close endpoints with large denominators
                0 | 1 => (base.clone(), &base + &eps),
                2 => (&base - &eps, base.clone()),
                // shared continued-fraction prefix, diverging tails
                3 | 4 | 5 => {
                    let mut t1 = cf_terms(seed, len, true);
                    let mut t2 = t1.clone();
                    let mut r = SplitMix(seed ^ 0x5555);
                    t1.push(1 + r.below(9));
                    t2.push(11 + r.below(1000));
                    t1.extend(cf_terms(seed ^ 1, 1 + r.below(6) as usize, true).iter().map(|t| t + 1));
                    if class == 5 {
                        t2.extend(cf_terms(seed ^ 2, 1 + r.below(6) as usize, true).iter().map(|t| t + 1));
                    }
                    (cf_value(&t1), cf_value(&t2))
                }
                // big integer endpoint, neighbour a tiny fraction away
                6 => (qn(&n.big()), qn(&n.big()) + &eps),
                // one endpoint 0, the other tiny
                7 => (Q::zero(), eps.clone()),
                // independent big endpoints
                8 => (base.clone(), Rat { n: Int { neg: n.neg, mag: huge.clone() }, d: d.clone() }.q()),
                // endpoints that are convergents of the same number (semiconvergent structure)
                _ => {
                    let t = cf_terms(seed, len + 2, false);
                    (cf_value(&t[..len]), cf_value(&t))
                }
            };
            if negate {
                l = -l;
                u = -u;
            }
            if swap {
                std::mem::swap(&mut l, &mut u);
            }
            SimplestCase { l: Rat::from_q(&l), u: Rat::from_q(&u) }
        },
    )
}

fn simplest_in(c: &SimplestCase, ctx: &Ctx, small: bool) -> Out {
    let mut out = Out::new();
    let (l, u) = (c.l.q(), c.u.q());
    let iv = Iv::open(&l, &u);
    // classes
    out.label(match l.cmp(&u) {
        Ordering::Less => "order:l<u",
        Ordering::Equal => "order:equal endpoints",
        Ordering::Greater => "order:swapped",
    });
    if l.is_zero() || u.is_zero() {
        out.label("endpoint:zero");
    }
    if l.is_integer() || u.is_integer() {
        out.label("endpoint:integer");
    }
    out.label(if iv.hi < Q::zero() || (iv.hi.is_zero() && iv.lo < Q::zero()) {
        "sign:negative"
    } else if iv.lo.is_negative() && iv.hi.is_positive() {
        "sign:straddling"
    } else {
        "sign:non-negative"
    });
    let got = match catch(|| RBig::simplest_in(c.l.rbig(), c.u.rbig())) {
        Ok(r) => r2q(&r),
        Err(m) => {
            out.fail(format!("RBig::simplest_in({}, {}) panicked: {}", show_q(&l), show_q(&u), normalise(&m)));
            return out;
        }
    };
    if l == u {
        // documented: "If lower and upper are the same number, then this number will be directly returned."
        out.check(got == l, || format!("RBig::simplest_in(x, x) with x = {}: got {}, documented to return x", show_q(&l), show_q(&got)));
        return out;
    }
    let want = simplest_sb(&iv).unwrap();
    if small {
        // the two oracles must agree (self-check), brute force is the definition
        match simplest_brute(&iv, 200_000) {
            Some(b) => {
                if b != want {
                    out.fail(format!("ORACLE SELF-CHECK: brute force {} vs Stern-Brocot {} on {}", show_q(&b), show_q(&want), iv.show()));
                    return out;
                }
            }
            None => {
                out.inconclusive("brute force bound exhausted");
                return out;
            }
        }
    }
    assert!(iv.contains(&want));
    let has_int = iv.has_integer();
    out.nontrivial(!has_int);
    out.label(if has_int { "interval:contains an integer" } else { "interval:no integer (descent >= 1 level)" });
    out.label(match want.denom().bits() {
        0..=1 => "result:integer",
        2..=16 => "result:den <= 16 bits",
        17..=64 => "result:den 17-64 bits",
        _ => "result:den > 64 bits",
    });
    if got != want {
        let detail = || {
            format!(
                "RBig::simplest_in({}, {}): got {}{}, simplest fraction strictly inside is {}",
                show_q(&l),
                show_q(&u),
                show_q(&got),
                if iv.contains(&got) { "" } else { " (not strictly inside)" },
                show_q(&want)
            )
        };
        if zero_endpoint_class(&l, &u) && got.is_zero() {
            ctx.known_or_fail(&mut out, "C18/simplest-in-zero-endpoint", detail);
        } else {
            out.fail(detail());
        }
    }
    out
}

// ---------------------------------------------------------------------------------------------
// next_up / next_down / nearest

#[derive(Debug, Clone, Hash, Serialize, Deserialize)]
struct FareyCase {
    x: Rat,
    limit: Nat,
}

fn farey_small() -> impl Strategy<Value = FareyCase> {
    (0u8..8, -300i64..=300, 1u64..=120, 1u64..=64).prop_map(|(class, n, d, l)| {
        let g = (n.unsigned_abs()).gcd(&d).max(1);
        let dr = d / g;
        let limit = match class {
            0 => 1,
            1 => 2,
            2 => dr.saturating_sub(1).max(1),
            3 => dr,
            4 => dr + 1,
            _ => l,
        };
        FareyCase { x: Rat::small(n, d), limit: Nat(vec![limit]) }
    })
}

fn isqrt(n: &BigUint) -> BigUint {
    num_integer::Roots::sqrt(n)
}

fn farey_big() -> impl Strategy<Value = FareyCase> {
    (any::<u64>(), 1usize..45, any::<bool>(), any::<u16>(), any::<u16>(), any::<bool>()).prop_map(|(seed, len, big_int, lsel, isel, neg)| {
        // partial quotients stay small so that dashu's one-mediant-per-iteration walk terminates
        let mut r = SplitMix(seed);
        let mut terms: Vec<u64> = (0..len)
            .map(|_| match r.below(12) {
                0..=6 => 1 + r.below(3),
                7..=10 => 1 + r.below(30),
                _ => 1 + r.below(1500),
            })
            .collect();
        terms[0] = if big_int { r.next() >> r.below(40) } else { r.below(3) };
        let mut x = cf_value(&terms);
        if big_int && seed & 1 == 1 {
            x = x + Q::from_integer(BigInt::from(r.next()) << 70usize);
        }
        if neg {
            x = -x;
        }
        let den = x.denom().magnitude().clone();
        // denominators of the convergents
        let conv: Vec<BigUint> = (1..=terms.len()).map(|i| cf_value(&terms[..i]).denom().magnitude().clone()).collect();
        let qi_ = pick(&conv, isel);
        let one = BigUint::one();
        let cands: Vec<BigUint> = vec![
            one.clone(),
            BigUint::from(2u8),
            if den > one { &den - &one } else { one.clone() },
            den.clone(),
            &den + &one,
            qi_.clone(),
            if qi_ > one { &qi_ - &one } else { one.clone() },
            &qi_ + &one,
            &qi_ + &qi_ / 2u8,
            isqrt(&den).max(one.clone()),
            &den * BigUint::from(1 + r.below(300)),
            (&den >> 1usize).max(one.clone()),
            BigUint::from(1 + r.below(5000)),
        ];
        FareyCase { x: Rat::from_q(&x), limit: Nat::from_big(&pick(&cands, lsel)) }
    })
}

const WALK_BUDGET: u64 = 150_000;

fn farey(c: &FareyCase, ctx: &Ctx, small: bool) -> Out {
    let mut out = Out::new();
    let x = c.x.q();
    let lim_u = {
        let l = c.limit.big();
        if l.is_zero() {
            BigUint::one()
        } else {
            l
        }
    };
    let limit = BigInt::from(lim_u.clone());
    let den = x.denom().clone();
    let fits = den <= limit;
    out.nontrivial(!fits);
    out.label(if limit.is_one() {
        "limit:1"
    } else if limit == BigInt::from(2) {
        "limit:2"
    } else if limit == &den - 1 {
        "limit:den-1"
    } else if limit == den {
        "limit:den"
    } else if limit == &den + 1 {
        "limit:den+1"
    } else if limit < den {
        "limit:<den"
    } else {
        "limit:>den"
    });
    out.label(if x.is_integer() {
        "x:integer"
    } else if x.is_negative() {
        "x:negative"
    } else {
        "x:positive"
    });
    let (succ, _) = farey_succ(&x, &limit);
    let (pred, _) = farey_pred(&x, &limit);
    // oracle self-checks: brute force for small limits, extended Euclid always
    if small {
        let l64 = u64::try_from(lim_u.clone()).unwrap();
        let sb = farey_succ_brute(&x, l64);
        let pb = -farey_succ_brute(&-&x, l64);
        if sb != succ || pb != pred {
            out.fail(format!("ORACLE SELF-CHECK: Farey neighbours of {} in F_{}: walk ({}, {}) vs brute force ({}, {})", show_q(&x), l64, show_q(&pred), show_q(&succ), show_q(&pb), show_q(&sb)));
            return out;
        }
    }
    if !is_farey_succ_euclid(&x, &succ, &limit) || !is_farey_succ_euclid(&-&x, &-&pred, &limit) {
        out.fail(format!("ORACLE SELF-CHECK: extended-Euclid test rejects the neighbours ({}, {}) of {} in F_{}", show_q(&pred), show_q(&succ), show_q(&x), limit));
        return out;
    }
    // dashu walks one mediant per iteration: cost of the walk it will do
    let fract = &x - x.trunc();
    let l2 = Q::new(BigInt::one(), &limit * &limit);
    let cost = |target: &Q| -> BigInt { farey_succ(&(target - target.floor()), &limit).1 };
    let (cost_up, cost_down) = if fits { (cost(&(&fract + &l2)), cost(&(&fract - &l2))) } else { (cost(&fract), cost(&fract)) };
    let budget = BigInt::from(WALK_BUDGET);
    let xr = c.x.rbig();
    let lim = n2u(&lim_u);
    let int_limit1 = limit.is_one() && x.is_integer();
    let judge_panic = |out: &mut Out, what: &str, m: &str| {
        if int_limit1 && m.contains("x.denominator() > limit") {
            ctx.known_or_fail(out, "C18/farey-limit1-debug-assert", || format!("RBig::{what}(limit = 1) of the integer {} panics: {}", show_q(&x), normalise(m)));
        } else {
            out.fail(format!("RBig::{what}({}) of {} panicked: {}", limit, show_q(&x), normalise(m)));
        }
    };
    if cost_up <= budget {
        match catch(|| xr.next_up(&lim)) {
            Ok(r) => {
                let g = r2q(&r);
                out.check(g == succ, || format!("RBig::next_up: x = {}, limit = {}: got {}, successor in the Farey sequence is {}", show_q(&x), limit, show_q(&g), show_q(&succ)));
            }
            Err(m) => judge_panic(&mut out, "next_up", &m),
        }
    } else {
        out.label("skipped:next_up (linear walk too long)");
    }
    if cost_down <= budget {
        match catch(|| xr.next_down(&lim)) {
            Ok(r) => {
                let g = r2q(&r);
                out.check(g == pred, || format!("RBig::next_down: x = {}, limit = {}: got {}, predecessor in the Farey sequence is {}", show_q(&x), limit, show_q(&g), show_q(&pred)));
            }
            Err(m) => judge_panic(&mut out, "next_down", &m),
        }
    } else {
        out.label("skipped:next_down (linear walk too long)");
    }
    if fits || cost_up <= budget {
        match catch(|| xr.nearest(&lim)) {
            Err(m) => out.fail(format!("RBig::nearest({}) of {} panicked: {}", limit, show_q(&x), normalise(&m))),
            Ok(Approximation::Exact(r)) => {
                let g = r2q(&r);
                out.check(fits && g == x, || format!("RBig::nearest: x = {}, limit = {}: got Exact({}); Exact(self) is documented iff den(self) <= limit", show_q(&x), limit, show_q(&g)));
            }
            Ok(Approximation::Inexact(r, s)) => {
                let g = r2q(&r);
                if fits {
                    out.fail(format!("RBig::nearest: x = {}, limit = {}: got Inexact({}) although the denominator fits (documented: Exact(self))", show_q(&x), limit, show_q(&g)));
                } else {
                    let (du, dd) = (&succ - &x, &x - &pred);
                    out.label(match du.cmp(&dd) {
                        Ordering::Less => "nearest:upper neighbour closer",
                        Ordering::Greater => "nearest:lower neighbour closer",
                        Ordering::Equal => "nearest:exact tie",
                    });
                    let ok_val = (g == succ && du <= dd) || (g == pred && dd <= du);
                    out.check(ok_val, || format!("RBig::nearest: x = {}, limit = {}: got {}, neighbours are {} (distance {}) and {} (distance {})", show_q(&x), limit, show_q(&g), show_q(&pred), show_q(&dd), show_q(&succ), show_q(&du)));
                    // sign convention: sign(result − self) (doc example and Approximation convention)
                    let want_s = if g > x { Sign::Positive } else { Sign::Negative };
                    out.check(s == want_s, || format!("RBig::nearest: x = {}, limit = {}: result {} flagged {:?}, sign(result − self) is {:?}", show_q(&x), limit, show_q(&g), s, want_s));
                }
            }
        }
    }
    out
}

// ---------------------------------------------------------------------------------------------
// simplest_from_f32 / simplest_from_f64

#[derive(Debug, Clone, Hash, Serialize, Deserialize)]
struct BitsCase {
    bits: u64,
}

fn ieee_bits(fmt: &'static Ieee) -> impl Strategy<Value = BitsCase> {
    (0u8..14, any::<u64>(), any::<bool>(), 1u32..400, 1u32..400).prop_map(move |(class, s, neg, a, b)| {
        let mb = fmt.mant_bits;
        let mmask = (1u64 << mb) - 1;
        let emax_field = (1u64 << (fmt.width - 1 - mb)) - 1; // all ones = inf/nan
        let mut r = SplitMix(s);
        let mag: u64 = match class {
            0 => 0,
            // fixed points of the format: min/max subnormal, min normal, max finite, 1.0, 2.0, 0.5 and neighbours
            1 => {
                let one = (fmt.bias() as u64) << mb;
                let l = [1u64, 2, 3, mmask, mmask - 1, 1 << mb, (1 << mb) + 1, (2 << mb) - 1, 2 << mb, (emax_field << mb) - 1, (emax_field << mb) - 2, ((emax_field - 1) << mb), one, one + 1, one - 1, one + (1 << mb), one - (1 << mb)];
                l[(r.below(l.len() as u64)) as usize]
            }
            // powers of two (asymmetric rounding interval when the exponent field is >= 2)
            2 | 3 => (1 + r.below(emax_field - 1)) << mb,
            // neighbours of powers of two: mantissa 1, all ones
            4 => ((1 + r.below(emax_field - 1)) << mb) | if s & 1 == 0 { 1 } else { mmask },
            // subnormals
            5 => 1 + r.below(mmask),
            // quotients of small integers, computed in the format itself
            6 | 7 => {
                if fmt.width == 32 {
                    (a as f32 / b as f32).to_bits() as u64
                } else {
                    (a as f64 / b as f64).to_bits()
                }
            }
            // large integers: spacing >= 2 (end points of the rounding interval are integers)
            8 | 9 => {
                let e = fmt.bias() as u64 + mb as u64 + 1 + r.below(12);
                (e << mb) | (r.next() & mmask)
            }
            // small integers and dyadics
            10 => {
                if fmt.width == 32 {
                    ((a as f32) * 0.125).to_bits() as u64
                } else {
                    ((a as f64) * 0.125).to_bits()
                }
            }
            // NaN / infinity (any payload)
            11 => (emax_field << mb) | if s & 3 == 0 { 0 } else { r.next() & mmask },
            // random finite
            _ => (r.below(emax_field) << mb) | (r.next() & mmask),
        };
        BitsCase { bits: mag | if neg { fmt.sign_bit() } else { 0 } }
    })
}

fn from_ieee(c: &BitsCase, ctx: &Ctx, fmt: &'static Ieee) -> Out {
    let mut out = Out::new();
    let bits = if fmt.width == 32 { c.bits & 0xffff_ffff } else { c.bits };
    let mbits = bits & !fmt.sign_bit();
    let call = if fmt.width == 32 { "RBig::simplest_from_f32" } else { "RBig::simplest_from_f64" };
    let got = catch(|| {
        if fmt.width == 32 {
            RBig::simplest_from_f32(f32::from_bits(bits as u32))
        } else {
            RBig::simplest_from_f64(f64::from_bits(bits))
        }
    });
    let got = match got {
        Ok(g) => g.map(|r| r2q(&r)),
        Err(m) => {
            out.fail(format!("{call}(bits {bits:#x}) panicked: {}", normalise(&m)));
            return out;
        }
    };
    if mbits >= fmt.inf_bits() {
        out.label(if mbits == fmt.inf_bits() { "class:infinite" } else { "class:nan" });
        out.check(got.is_none(), || format!("{call}(bits {bits:#x}): NaN/infinity must give None, got {:?}", got.as_ref().map(show_q)));
        return out;
    }
    let got = match got {
        Some(g) => g,
        None => {
            out.fail(format!("{call}(bits {bits:#x}): None for a finite value"));
            return out;
        }
    };
    if mbits == 0 {
        out.label("class:zero");
        out.check(got.is_zero(), || format!("{call}(±0) = {}", show_q(&got)));
        return out;
    }
    let efield = mbits >> fmt.mant_bits;
    let mfield = mbits & ((1u64 << fmt.mant_bits) - 1);
    out.label(if efield == 0 { "class:subnormal" } else { "class:normal" });
    if mfield == 0 && efield >= 1 {
        out.label(if efield >= 2 { "class:power of two (asymmetric interval)" } else { "class:min normal" });
    }
    out.label(if fmt.decoded_exp(mbits) >= 1 { "spacing:>= 2 (integers only)" } else { "spacing:<= 1" });
    out.label(if mbits & 1 == 0 { "mantissa:even (ties included)" } else { "mantissa:odd (ties excluded)" });
    let ti = fmt.rounding_interval(bits);
    // self-check of the interval against the independent RNE routine
    {
        let w = (&ti.hi - &ti.lo) / qi(1 << 20);
        let ok = (fmt.rne(&ti.lo) == bits) == ti.lc
            && (fmt.rne(&ti.hi) == bits) == ti.hc
            && fmt.rne(&(&ti.lo + &w)) == bits
            && fmt.rne(&(&ti.hi - &w)) == bits
            && fmt.rne(&(&ti.lo - &w)) != bits
            && fmt.rne(&(&ti.hi + &w)) != bits;
        if !ok {
            out.fail(format!("ORACLE SELF-CHECK: rounding interval {} of {} bits {bits:#x} disagrees with the RNE routine", ti.show(), fmt.name));
            return out;
        }
    }
    let want = simplest_sb(&ti).unwrap();
    let has_int = ti.has_integer();
    out.nontrivial(!has_int);
    out.label(if has_int { "interval:contains an integer" } else { "interval:no integer (descent >= 1 level)" });
    if want == ti.lo || want == ti.hi {
        out.label("simplest is an included end point");
    }
    // (1) the result converts back to the given float
    let back = fmt.rne(&got);
    let roundtrip = back == bits;
    // (2) no simpler fraction does
    if got == want {
        assert!(roundtrip);
        return out;
    }
    let detail = || {
        format!(
            "{call}(bits {bits:#x} = {}): got {} which {}; the simplest fraction that rounds to this float is {} (rounding interval {})",
            show_q(&(fmt.mag_value(mbits) * if bits != mbits { qi(-1) } else { qi(1) })),
            show_q(&got),
            if roundtrip { "is not the simplest".to_string() } else { format!("converts back to bits {back:#x}") },
            show_q(&want),
            ti.show()
        )
    };
    // attribution against the code as written: value ± half of 2^exponent, closed iff even mantissa
    let ci = fmt.coded_interval(bits);
    if !explained_by(&ci, &got) {
        out.fail(detail());
    } else if coded_result(&ci, true, false) == want {
        // the coded interval with its end points would give the right answer: only the end-point
        // selection through is_simpler_than failed
        ctx.known_or_fail(&mut out, "C18/is-simpler-than-conjunction", detail);
    } else if fmt.decoded_exp(mbits) >= 1 {
        // spacing of the floats >= 2, but the code takes half of 1/denominator = 1/2 as half an ulp
        ctx.known_or_fail(&mut out, "C18/simplest-from-f-ulp-of-integers", detail);
    } else {
        out.fail(detail());
    }
    out
}

// ---------------------------------------------------------------------------------------------
// simplest_from_float

#[derive(Debug, Clone, Hash, Serialize, Deserialize)]
struct FloatCase {
    p: u32,
    x: Fl,
    /// 0 finite, 1 zero, 2 +inf, 3 -inf
    special: u8,
}

fn float_case(base: u64) -> impl Strategy<Value = FloatCase> {
    (
        prop_oneof![3 => Just(1u32), 3 => Just(2u32), 2 => Just(3u32), 6 => 4u32..=10, 4 => 11u32..=40, 1 => Just(0u32)],
        any::<u16>(),
        0u8..9,
        any::<u64>(),
        any::<bool>(),
        any::<u16>(),
        0u8..40,
    )
        .prop_map(move |(p, ksel, pat, seed, neg, esel, sp)| {
            let pe = if p == 0 { 1 + seed % 20 } else { p as u64 };
            let ks = [pe, pe, pe.saturating_sub(1).max(1), 1, 1 + seed % pe, (pe + 1) / 2];
            let k = pick(&ks, ksel);
            let m = sig_pattern(base, k, pat, seed);
            let n = if neg { -BigInt::from(m) } else { BigInt::from(m) };
            // exponent relative to the digit count: value near 1, pure fraction, integer with spacing > 1
            let kk = k as i64;
            let es = [-kk, -kk + 1, -kk - 1, -kk / 2, 0, 1, 3, -kk - 4, (seed % 91) as i64 - 45, -kk + (seed % 3) as i64, -(pe as i64), 2 * pe as i64];
            let exp = pick(&es, esel);
            let special = match sp {
                0 => 1,
                1 => 2,
                2 => 3,
                _ => 0,
            };
            FloatCase { p, x: fl_from(&n, exp), special }
        })
}

fn run_float<R: ModeTag + ErrorBounds, const B: Word>(c: &FloatCase, ctx: &Ctx) -> Out {
    let mut out = Out::new();
    let base = B as u64;
    let md = R::MODE;
    let p = c.p as u64;
    let call = format!("RBig::simplest_from_float::<{}, {}>", md.name(), base);
    out.label(match c.p {
        0 => "p:0 (unlimited)",
        1 => "p:1",
        2 => "p:2",
        3 => "p:3",
        4..=10 => "p:4-10",
        _ => "p:11-40",
    });
    if c.special >= 2 {
        out.label("class:infinite");
        let f: FBig<R, B> = if c.special == 2 { FBig::INFINITY } else { FBig::NEG_INFINITY };
        match catch(|| RBig::simplest_from_float(&f)) {
            Ok(g) => out.check(g.is_none(), || format!("{call}(±inf) must be None")),
            Err(m) => out.fail(format!("{call}(±inf) panicked: {}", normalise(&m))),
        }
        return out;
    }
    let fl = if c.special == 1 { fl_from(&BigInt::zero(), 0) } else { c.x.clone() };
    let f: FBig<R, B> = fl.fbig(c.p as usize);
    let v = fl.sci(base).to_rational();
    let got = catch(|| RBig::simplest_from_float(&f));
    if v.is_zero() {
        out.label("class:zero");
        match got {
            Ok(Some(g)) => out.check(r2q(&g).is_zero(), || format!("{call}(0) != 0")),
            Ok(None) => out.fail(format!("{call}(0) = None")),
            Err(m) => out.fail(format!("{call}(0) panicked: {}", normalise(&m))),
        }
        return out;
    }
    let show_f = || format!("{} (precision {})", fl.sci(base).show(), c.p);
    if c.p == 0 {
        // unlimited precision: nothing was rounded, the interval is the point itself
        // (ErrorBounds doc: "When the input number has unlimited precision, the output must be (ZERO, ZERO, true, true)")
        match got {
            Ok(Some(g)) => out.check(r2q(&g) == v, || format!("{call}({}): got {}, an unlimited-precision value is its own rounding interval", show_f(), show_q(&r2q(&g)))),
            Ok(None) => out.fail(format!("{call}({}) = None for a finite value", show_f())),
            Err(m) => {
                let direct = matches!(md, Mode::Away | Mode::Up | Mode::Down);
                if direct && m.contains("precision cannot be 0") {
                    ctx.known_or_fail(&mut out, "C18/error-bounds-precision0-panic", || format!("{call}({}) panicked: {}", show_f(), normalise(&m)));
                } else {
                    out.fail(format!("{call}({}) panicked: {}", show_f(), normalise(&m)));
                }
            }
        }
        return out;
    }
    let (ti, pw) = true_interval(&v, base, p, md);
    if pw {
        out.label("class:power of the base (asymmetric interval)");
    }
    // self-check of the interval against the rounding definition
    {
        let w = (&ti.hi - &ti.lo) / qi(1 << 20);
        let rp = |x: &Q| round_p(x, base, p, md);
        let ok = rp(&v) == v && rp(&(&ti.lo + &w)) == v && rp(&(&ti.hi - &w)) == v && rp(&(&ti.lo - &w)) != v && rp(&(&ti.hi + &w)) != v && ti.contains(&v);
        if !ok {
            out.fail(format!("ORACLE SELF-CHECK: rounding interval {} of {} in mode {} is inconsistent with round_p", ti.show(), show_f(), md.name()));
            return out;
        }
    }
    out.label(match (ti.lc, ti.hc) {
        (true, true) => "ends:[ ]",
        (true, false) => "ends:[ )",
        (false, true) => "ends:( ]",
        (false, false) => "ends:( )",
    });
    // the interval dashu derives: ErrorBounds::error_bounds (called, and judged against the definition)
    let ci = match catch(|| R::error_bounds(&f)) {
        Ok((l, r, il, ir)) => match (Sci::from_repr(l.repr()), Sci::from_repr(r.repr())) {
            (Some(l), Some(r)) => Iv { lo: &v - l.to_rational(), hi: &v + r.to_rational(), lc: il, hc: ir },
            _ => {
                out.fail(format!("ErrorBounds::error_bounds({}) returned an infinite bound", show_f()));
                return out;
            }
        },
        Err(m) => {
            out.fail(format!("ErrorBounds::error_bounds({}) panicked: {}", show_f(), normalise(&m)));
            return out;
        }
    };
    let ends_equal = ci.lo == ti.lo && ci.hi == ti.hi;
    let odd_half = base % 2 == 1 && md.is_half();
    // soundness of the bounds: every x that rounds to f lies inside them
    let sound = (ci.lo < ti.lo || (ci.lo == ti.lo && (ci.lc || !ti.lc))) && (ci.hi > ti.hi || (ci.hi == ti.hi && (ci.hc || !ti.hc)));
    if !sound {
        let detail = || format!("ErrorBounds::<{}>::error_bounds({}) base {}: stated interval {} does not cover the exact rounding interval {}", md.name(), show_f(), base, ci.show(), ti.show());
        let stored_odd = {
            // parity of the normalised significand (trailing zero digits stripped)
            let mut m = fl.sig.mag.big();
            let b = BigUint::from(base);
            while (&m % &b).is_zero() {
                m /= &b;
            }
            m.is_odd()
        };
        if md == Mode::HalfEven && ends_equal && ci.lc == stored_odd && ci.hc == stored_odd {
            ctx.known_or_fail(&mut out, "C18/error-bounds-halfeven-parity", detail);
        } else {
            out.fail(detail());
        }
    }
    let want = simplest_sb(&ti).unwrap();
    let has_int = ti.has_integer();
    out.nontrivial(!has_int);
    out.label(if has_int { "interval:contains an integer" } else { "interval:no integer (descent >= 1 level)" });
    if want == ti.lo || want == ti.hi {
        out.label("simplest is an included end point");
    }
    let got = match got {
        Ok(Some(g)) => r2q(&g),
        Ok(None) => {
            out.fail(format!("{call}({}) = None for a finite value", show_f()));
            return out;
        }
        Err(m) => {
            out.fail(format!("{call}({}) panicked: {}", show_f(), normalise(&m)));
            return out;
        }
    };
    if got == want {
        return out;
    }
    let back = round_p(&got, base, p, md);
    let detail = || {
        format!(
            "{call}({}): got {} which {}; the simplest fraction that rounds to this float is {} (rounding interval {}, ErrorBounds says {})",
            show_f(),
            show_q(&got),
            if back == v { "is not the simplest".to_string() } else { format!("rounds to {} instead", show_q(&back)) },
            show_q(&want),
            ti.show(),
            ci.show()
        )
    };
    if !explained_by(&ci, &got) {
        out.fail(detail());
    } else if coded_result(&ci, true, false) == want {
        ctx.known_or_fail(&mut out, "C18/is-simpler-than-conjunction", detail);
    } else if ends_equal {
        if md == Mode::HalfEven {
            ctx.known_or_fail(&mut out, "C18/error-bounds-halfeven-parity", detail);
        } else {
            out.fail(detail());
        }
    } else if odd_half && !pw {
        ctx.known_or_fail(&mut out, "C18/error-bounds-odd-base-half-ulp", detail);
    } else if pw {
        ctx.known_or_fail(&mut out, "C18/error-bounds-power-of-base", detail);
    } else {
        out.fail(detail());
    }
    out
}

// ---------------------------------------------------------------------------------------------
// is_simpler_than

#[derive(Debug, Clone, Hash, Serialize, Deserialize)]
struct PairCase {
    a: Rat,
    b: Rat,
}

fn pair_case() -> impl Strategy<Value = PairCase> {
    (0u8..10, -12i64..=12, 1u64..=9, -12i64..=12, 1u64..=9, gen::int(Prof::Small), gen::nat_nz(Prof::Small), gen::int(Prof::Small), gen::nat_nz(Prof::Small)).prop_map(|(class, n1, d1, n2, d2, bn1, bd1, bn2, bd2)| {
        let (a, b) = match class {
            0..=3 => (Rat::small(n1, d1), Rat::small(n2, d2)),
            4 => (Rat::small(n1, d1), Rat::small(n2, d1)),
            5 => (Rat::small(n1, d1), Rat::small(-n1, d1)),
            6 => (Rat::small(n1, d1), Rat::small(n1, d2)),
            7 => (Rat { n: bn1.clone(), d: bd1.clone() }, Rat { n: bn2, d: bd1 }),
            8 => (Rat { n: bn1.clone(), d: bd1 }, Rat { n: bn1, d: bd2 }),
            _ => (Rat { n: bn1, d: bd1 }, Rat { n: bn2, d: bd2 }),
        };
        PairCase { a, b }
    })
}

fn is_simpler(c: &PairCase, ctx: &Ctx) -> Out {
    let mut out = Out::new();
    let (a, b) = (c.a.q(), c.b.q());
    out.nontrivial(a != b);
    out.label(if a.denom() != b.denom() {
        "decided by:denominator"
    } else if a.numer().abs() != b.numer().abs() {
        "decided by:numerator magnitude"
    } else if a != b {
        "decided by:sign"
    } else {
        "equal"
    });
    let (ra, rb) = (c.a.rbig(), c.b.rbig());
    for (x, y, rx, ry) in [(&a, &b, &ra, &rb), (&b, &a, &rb, &ra)] {
        let want = simpler(x, y);
        match catch(|| rx.is_simpler_than(ry)) {
            Err(m) => out.fail(format!("RBig::is_simpler_than panicked: {}", normalise(&m))),
            Ok(got) => {
                if got != want {
                    let detail = || format!("({}).is_simpler_than({}) = {got}, documented order (denominator, then |numerator|, then sign) says {want}", show_q(x), show_q(y));
                    // the conjunction in the code can only under-report
                    let conj = x.denom() < y.denom() && x.numer().abs() <= y.numer().abs() && !x.numer().is_negative() && y.numer().is_negative();
                    if want && !got && !conj {
                        ctx.known_or_fail(&mut out, "C18/is-simpler-than-conjunction", detail);
                    } else {
                        out.fail(detail());
                    }
                }
            }
        }
    }
    out
}

// ---------------------------------------------------------------------------------------------
// the IEEE reference routine against hardware casts (oracle validation, no dashu code involved)

#[derive(Debug, Clone, Hash, Serialize, Deserialize)]
struct CastCase {
    n: i128,
    k: u8,
}

fn rne_selfcheck(c: &CastCase, _ctx: &Ctx) -> Out {
    let mut out = Out::new();
    out.nontrivial(true);
    let k = (c.k % 60) as i32;
    // n · 2^-k: the cast of n is correctly rounded by the language, the scaling by 2^-k is exact
    // (no underflow: |n| >= 1 and k < 60)
    let q = Q::new(BigInt::from(c.n), BigInt::one() << (k as usize));
    let h64 = (c.n as f64) * f64::from_bits(((1023 - k) as u64) << 52);
    let h32 = (c.n as f32) * f32::from_bits(((127 - k) as u32) << 23);
    out.check(F64.rne(&q) == h64.to_bits(), || format!("ORACLE SELF-CHECK: rne f64 of {}·2^-{k}: {:#x} vs hardware {:#x}", c.n, F64.rne(&q), h64.to_bits()));
    out.check(F32.rne(&q) == h32.to_bits() as u64, || format!("ORACLE SELF-CHECK: rne f32 of {}·2^-{k}: {:#x} vs hardware {:#x}", c.n, F32.rne(&q), h32.to_bits()));
    out.label(if c.n.unsigned_abs() >= 1 << 53 { "cast:rounds in f64" } else if c.n.unsigned_abs() >= 1 << 24 { "cast:rounds in f32 only" } else { "cast:exact" });
    out
}

macro_rules! float_subs {
    ($ck:ident, $($b:literal $bn:literal),*) => {$(
        float_subs!(@m $ck, $b, $bn, Zero, Away, Up, Down, HalfEven, HalfAway);
    )*};
    (@m $ck:ident, $b:literal, $bn:literal, $($m:ident),*) => {$(
        $ck.sub(concat!("from_float_b", $bn, "_", stringify!($m)), (700, 28_000), || float_case($b), run_float::<mode::$m, $b>);
    )*};
}

fn main() {
    let mut ck = Check::new(
        "C18",
        "simplest_in: end points from classes (independent, equal, swapped, one end 0, integers, sign-straddling, negative, u = l + 1/(d·k), inside the unit interval; big: u = l ± 1/huge, continued fractions with a shared prefix and diverging tails, convergent pairs, big integer end) judged by brute force over denominators (small) and an independent run-length Stern–Brocot descent (both must agree on small inputs); next_up/next_down/nearest: x from small fractions / continued fractions with bounded partial quotients, limits 1, 2, den(x)±1, den(x), convergent denominators ±1, sqrt(den), k·den, judged by Farey neighbours from an accelerated walk, cross-checked by brute force (limit <= 64) and by the extended-Euclid predecessor test; simplest_from_f32/f64: bit patterns of all finite classes (±0, subnormal, min normal, powers of two, mantissa 1 / all ones, max finite, quotients a/b, integers with spacing >= 2, random) and NaN/inf, judged by 'round trip under own RNE-on-rational' and 'equals the simplest fraction of the exact rounding interval (closed iff even mantissa)'; simplest_from_float: bases {2,3,10,16} × 6 modes × precision 0..40 × digit patterns with <= p digits, interval from the definition of the mode (round_p), ErrorBounds judged for covering it; is_simpler_than on all pair classes (same denominator, same numerator, opposite sign, big). Non-trivial: the interval contains no integer (descent at least one level) / limit < den(x) / the pair differs; distinct by case digest.",
    );
    ck.assume("IEEE reference routine validated in-run against hardware casts (sub rne_selfcheck) and against the float's own neighbours (bit pattern ± 1)");
    ck.sub("simplest_in_small", (8_000, 320_000), small_interval, |c, ctx| simplest_in(c, ctx, true));
    ck.sub("simplest_in_big", (4_000, 160_000), big_interval, |c, ctx| simplest_in(c, ctx, false));
    ck.sub("farey_small", (6_000, 240_000), farey_small, |c, ctx| farey(c, ctx, true));
    ck.sub("farey_big", (3_000, 120_000), farey_big, |c, ctx| farey(c, ctx, false));
    ck.sub("from_f32", (6_000, 240_000), || ieee_bits(&F32), |c, ctx| from_ieee(c, ctx, &F32));
    ck.sub("from_f64", (6_000, 240_000), || ieee_bits(&F64), |c, ctx| from_ieee(c, ctx, &F64));
    float_subs!(ck, 2 "2", 3 "3", 10 "10", 16 "16");
    ck.sub("is_simpler", (4_000, 160_000), pair_case, is_simpler);
    ck.sub(
        "rne_selfcheck",
        (1_000, 40_000),
        || (any::<i128>(), 0u32..127, any::<u8>()).prop_map(|(n, sh, k)| CastCase { n: (n >> sh) | 1, k }),
        rne_selfcheck,
    );
    ck.finish();
}
