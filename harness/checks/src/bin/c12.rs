//! C12 — gcd, integer roots, integer logarithms and `remove` satisfy their defining
//! (in)equalities; the only panics are the documented ones.
//!
//! Everything is decided against the *definition* evaluated in num-bigint (raw-word bridge):
//!   gcd:     g == reference gcd (non-negative), gcd_ext additionally s·a + t·b == g exactly
//!   roots:   r^n <= x < (r+1)^n, rem == x − r^n, sign/panic conventions of the rustdoc
//!   ilog:    b^e <= |x| < b^(e+1)
//!   remove:  returned exponent == exact multiplicity, value left == x / f^m
//! The `log2_bounds` / `log2_est` clause needs an interval-arithmetic oracle: see `log2_subs`.
use dashu_base::{CubicRoot, CubicRootRem, ExtendedGcd, Gcd, SquareRoot, SquareRootRem};
use dashu_int::{IBig, UBig};
use dv::gen::{self, Prof};
use dv::*;
use num_bigint::{BigInt, BigUint};
use num_traits::{One, Pow, Signed, Zero};
use proptest::prelude::*;
use proptest::strategy::Union;
use serde::{Deserialize, Serialize};
use serde_json::json;
use std::collections::BTreeMap;

// ------------------------------------------------------------------------------------------
// case types
// ------------------------------------------------------------------------------------------

#[derive(Debug, Clone, Hash, Serialize, Deserialize)]
struct GcdCase {
    a: Int,
    b: Int,
    class: u8,
}

#[derive(Debug, Clone, Hash, Serialize, Deserialize)]
struct PrimGcd {
    a: u128,
    b: u128,
    width: u8, // 0..6: u8,u16,u32,u64,u128,usize
}

#[derive(Debug, Clone, Hash, Serialize, Deserialize)]
struct RootCase {
    x: Int,
    n: usize,
}

#[derive(Debug, Clone, Hash, Serialize, Deserialize)]
struct PrimRoot {
    x: u128,
    width: u8, // 0..5: u8,u16,u32,u64,u128
}

#[derive(Debug, Clone, Hash, Serialize, Deserialize)]
struct IlogCase {
    x: Int,
    base: Nat,
}

#[derive(Debug, Clone, Hash, Serialize, Deserialize)]
struct RemoveCase {
    x: Nat,
    factor: Nat,
}

// ------------------------------------------------------------------------------------------
// small helpers
// ------------------------------------------------------------------------------------------

fn npow(b: &BigUint, e: usize) -> BigUint {
    Pow::pow(b, e)
}
fn ngcd(a: &BigUint, b: &BigUint) -> BigUint {
    num_integer::Integer::gcd(a, b)
}
fn nat_or_one(n: Nat) -> Nat {
    if n.is_zero() {
        Nat(vec![1])
    } else {
        n
    }
}
fn mk_int(neg: bool, mag: Nat) -> Int {
    Int { neg: neg && !mag.is_zero(), mag }
}
fn top_word(n: &Nat) -> u64 {
    let l = n.trimmed_len();
    if l == 0 {
        0
    } else {
        n.0[l - 1]
    }
}
fn low_zero_words(n: &Nat) -> usize {
    n.0.iter().take(n.trimmed_len()).take_while(|w| **w == 0).count()
}

/// documented panic: must happen and carry the documented message
fn must_panic<T>(out: &mut Out, what: &str, r: Result<T, String>, needle: &str) {
    match r {
        Ok(_) => out.fail(format!("{what}: returned a value instead of the documented panic")),
        Err(m) => {
            if !m.contains(needle) {
                out.fail(format!("{what}: panicked, but not with the documented message (`{needle}`): {}", normalise(&m)));
            }
        }
    }
}

fn eq_u(out: &mut Out, what: &str, got: Result<UBig, String>, want: &BigUint) {
    match got {
        Ok(g) => {
            if &u2n(&g) != want {
                out.fail(format!("{what}: got {} want {}", show_u(&u2n(&g)), show_u(want)));
            }
        }
        Err(m) => out.fail(format!("{what}: unexpected panic {}", normalise(&m))),
    }
}

// ------------------------------------------------------------------------------------------
// gcd / gcd_ext on UBig, IBig, mixed
// ------------------------------------------------------------------------------------------

const GCD_CLASS: [&str; 9] = [
    "gen:pair (independent/equal/a±1/multiple/unbalanced)",
    "gen:one operand zero",
    "gen:(g·x, g·y)",
    "gen:Fibonacci-like (all quotients 1)",
    "gen:continued fraction with chosen quotients",
    "gen:a = b·q + r, q ≈ 2^63..2^64·k (Lehmer quotient overflow)",
    "gen:trailing zero words",
    "gen:trailing zero bits",
    "gen:both zero",
];

/// partial quotients for the continued-fraction construction: around the Lehmer COEFF_LIMIT
/// (2^63 − 1) and the word boundary
fn quotient(sel: u8, s: u64) -> BigUint {
    let one = BigUint::one();
    match sel % 16 {
        0 | 1 | 2 => one,
        3 => BigUint::from(2u8),
        4 => BigUint::from(3u8),
        5 => BigUint::from(s % 1000 + 1),
        6 => BigUint::from(1u64 << 31),
        7 => BigUint::from(1u64 << 32),
        8 => BigUint::from((1u64 << 63) - 1),
        9 => BigUint::from(1u64 << 63),
        10 => BigUint::from((1u64 << 63) + 1),
        11 => BigUint::from(u64::MAX),
        12 => BigUint::from(1u128 << 64),
        13 => BigUint::from((1u128 << 64) + 1),
        14 => BigUint::from(s),
        _ => BigUint::from(((s as u128) << 64) | (s.rotate_left(17) as u128)),
    }
}

fn gcd_pair(prof: Prof, maxw: usize) -> BoxedStrategy<(Nat, Nat, u8)> {
    let maxw = maxw.max(3);
    let v: Vec<(u32, BoxedStrategy<(Nat, Nat, u8)>)> = vec![
        (6, gen::nat_pair(prof).prop_map(|(a, b, _)| (a, b, 0u8)).boxed()),
        (2, (gen::nat_nz(prof), any::<bool>()).prop_map(|(a, left)| if left { (Nat(vec![]), a, 1u8) } else { (a, Nat(vec![]), 1u8) }).boxed()),
        (
            5,
            (gen::nat_nz(prof), gen::nat(prof), gen::nat(prof))
                .prop_map(move |(g, x, y)| {
                    // keep the product within ~maxw words
                    let cut = |n: Nat, m: usize| Nat(n.0[..n.trimmed_len().min(m)].to_vec());
                    let g = nat_or_one(cut(g, (maxw / 2).max(1)));
                    let (x, y) = (cut(x, (maxw / 2).max(1)), cut(y, (maxw / 2).max(1)));
                    let gb = g.big();
                    (Nat::from_big(&(&gb * x.big())), Nat::from_big(&(&gb * y.big())), 2u8)
                })
                .boxed(),
        ),
        (
            4,
            (2usize..=maxw, 0usize..92, 0u8..4, any::<u64>(), any::<u64>(), any::<bool>())
                .prop_map(|(words, extra, seedsel, s0, s1, swap)| {
                    // x_{k+1} = x_k + x_{k-1}: every Euclidean quotient is 1 (worst case for Lehmer);
                    // 92 steps ≈ one more word
                    let (mut lo, mut hi) = match seedsel {
                        0 | 1 => (BigUint::zero(), BigUint::one()),
                        2 => (BigUint::from(s0 % 1000), BigUint::from(s1 % 1000 + 1000)),
                        _ => (BigUint::from(s0 >> 1), BigUint::from(s1 | (1 << 63))),
                    };
                    for _ in 0..(words * 92 + extra) {
                        let nh = &hi + &lo;
                        lo = std::mem::replace(&mut hi, nh);
                    }
                    let (a, b) = (Nat::from_big(&hi), Nat::from_big(&lo));
                    if swap {
                        (b, a, 3u8)
                    } else {
                        (a, b, 3u8)
                    }
                })
                .boxed(),
        ),
        (
            5,
            (gen::nat_nz(Prof::Tiny), proptest::collection::vec((0u8..16, any::<u64>()), 1..=maxw.min(40)), any::<bool>(), any::<bool>())
                .prop_map(|(g, qs, swap, huge_last)| {
                    let (mut hi, mut lo) = (g.big(), BigUint::zero());
                    for (i, (sel, s)) in qs.into_iter().enumerate() {
                        // the first quotient applied is the last one of the Euclidean sequence: a huge
                        // one after small ones is where an underestimated Lehmer quotient shows
                        let sel = if i == 0 && huge_last { 8 + sel % 8 } else { sel };
                        let nh = quotient(sel, s) * &hi + &lo;
                        lo = std::mem::replace(&mut hi, nh);
                    }
                    let (a, b) = (Nat::from_big(&hi), Nat::from_big(&lo));
                    if swap {
                        (b, a, 4u8)
                    } else {
                        (a, b, 4u8)
                    }
                })
                .boxed(),
        ),
        (
            2,
            // ..., huge, {2,3}, {2,3}, huge: a tiny remainder right after small quotients is where the
            // single-word Lehmer guess is least certain about its last quotient
            (gen::nat_nz(Prof::Tiny), (8u8..16, any::<u64>()), 3u8..5, 3u8..5, (8u8..16, any::<u64>()), proptest::collection::vec((0u8..16, any::<u64>()), 0..4), any::<bool>())
                .prop_map(|(g, h_last, m2, m1, h_first, more, swap)| {
                    let (mut hi, mut lo) = (g.big(), BigUint::zero());
                    let seq = [h_last, (m2, 0), (m1, 0), h_first].into_iter().chain(more);
                    for (sel, s) in seq {
                        let nh = quotient(sel, s) * &hi + &lo;
                        lo = std::mem::replace(&mut hi, nh);
                    }
                    let (a, b) = (Nat::from_big(&hi), Nat::from_big(&lo));
                    if swap {
                        (b, a, 4u8)
                    } else {
                        (a, b, 4u8)
                    }
                })
                .boxed(),
        ),
        (
            4,
            (gen::nat_len(1, maxw), 0u8..8, any::<u64>(), 0u8..4, any::<bool>())
                .prop_map(|(b, qsel, s, rsel, swap)| {
                    let nb = b.big();
                    let q: BigUint = match qsel {
                        0 => BigUint::from(1u64 << 63),
                        1 => BigUint::from(u64::MAX),
                        2 => BigUint::from(1u128 << 64),
                        3 => BigUint::from((1u128 << 64) + 1),
                        4 => BigUint::from(1u128 << 64) * BigUint::from(s % 1000 + 1),
                        5 => BigUint::one() << (64 * (2 + (s % 3) as usize)),
                        6 => BigUint::from((1u64 << 63) - 1),
                        _ => BigUint::from(s | (1 << 63)),
                    };
                    let r = match rsel {
                        0 => BigUint::zero(),
                        1 => BigUint::one() % &nb,
                        2 => BigUint::from(s) % &nb,
                        _ => &nb - BigUint::one(),
                    };
                    let a = Nat::from_big(&(q * &nb + r));
                    if swap {
                        (b, a, 5u8)
                    } else {
                        (a, b, 5u8)
                    }
                })
                .boxed(),
        ),
        (
            5,
            (gen::nat_nz(prof), gen::nat_nz(prof), 0usize..7, 0usize..7, 0u8..4)
                .prop_map(move |(x, y, i, j, pure)| {
                    // pure powers of two (2^(64i), 2^(64j)) come first: (2^320, 2^128) is one of them
                    let cut = |n: Nat| nat_or_one(Nat(n.0[..n.trimmed_len().min(maxw)].to_vec()));
                    let (x, y) = match pure {
                        0 => (Nat(vec![1]), Nat(vec![1])),
                        1 => (cut(x), Nat(vec![1])),
                        _ => (cut(x), cut(y)),
                    };
                    (Nat::from_big(&(x.big() << (64 * i))), Nat::from_big(&(y.big() << (64 * j))), 6u8)
                })
                .boxed(),
        ),
        (
            2,
            (gen::nat_nz(prof), gen::nat_nz(prof), 0usize..300, 0usize..300)
                .prop_map(|(x, y, i, j)| (Nat::from_big(&(x.big() << i)), Nat::from_big(&(y.big() << j)), 7u8))
                .boxed(),
        ),
        (1, Just((Nat(vec![]), Nat(vec![]), 8u8)).boxed()),
    ];
    Union::new_weighted(v).boxed()
}

fn gcd_case(prof: Prof, maxw: usize) -> impl Strategy<Value = GcdCase> {
    (gcd_pair(prof, maxw), any::<bool>(), any::<bool>()).prop_map(|((a, b, class), sa, sb)| GcdCase { a: mk_int(sa, a), b: mk_int(sb, b), class })
}

struct GcdInfo<'a> {
    na: &'a BigInt,
    nb: &'a BigInt,
    g: &'a BigUint,
}

/// (g, s, t) must satisfy g == gcd and s·a + t·b == g exactly (no minimality asserted:
/// the rustdoc only promises "the Bézout coefficients")
enum ExtFault {
    Panic(String),
    /// g is right, the coefficients are not
    Bezout(String),
}

fn check_ext(out: &mut Out, what: &str, got: Result<(UBig, IBig, IBig), String>, i: &GcdInfo) -> Option<ExtFault> {
    match got {
        Ok((g, s, t)) => {
            let (g, s, t) = (u2n(&g), i2n(&s), i2n(&t));
            if &g != i.g {
                out.fail(format!("{what}: gcd {} want {}", show_u(&g), show_u(i.g)));
            } else if &s * i.na + &t * i.nb != BigInt::from(g.clone()) {
                return Some(ExtFault::Bezout(format!("s·a + t·b != g with s = {}, t = {}, g = {}", show_i(&s), show_i(&t), show_u(&g))));
            }
            None
        }
        Err(m) => Some(ExtFault::Panic(m)),
    }
}

fn gcd_big(c: &GcdCase, ctx: &Ctx) -> Out {
    let mut out = Out::new();
    let (la, lb) = (c.a.mag.trimmed_len(), c.b.mag.trimmed_len());
    let (ua, ub) = (c.a.mag.ubig(), c.b.mag.ubig());
    let (a, b) = (c.a.ibig(), c.b.ibig());
    let (nua, nub) = (c.a.mag.big(), c.b.mag.big());
    let (na, nb) = (c.a.big(), c.b.big());
    out.label(GCD_CLASS[(c.class as usize).min(GCD_CLASS.len() - 1)]);

    if nua.is_zero() && nub.is_zero() {
        out.label("both zero (documented panic)");
        out.nontrivial(true);
        const MSG: &str = "greatest common divisor is not defined";
        must_panic(&mut out, "UBig gcd(0,0)", catch(|| (&ua).gcd(&ub)), MSG);
        must_panic(&mut out, "UBig gcd(0,0) val", catch(|| ua.clone().gcd(ub.clone())), MSG);
        must_panic(&mut out, "IBig gcd(0,0)", catch(|| (&a).gcd(&b)), MSG);
        must_panic(&mut out, "UBig.gcd(IBig) (0,0)", catch(|| (&ua).gcd(&b)), MSG);
        must_panic(&mut out, "IBig.gcd(UBig) (0,0)", catch(|| (&a).gcd(&ub)), MSG);
        must_panic(&mut out, "UBig gcd_ext(0,0)", catch(|| (&ua).gcd_ext(&ub)), MSG);
        must_panic(&mut out, "UBig gcd_ext(0,0) val", catch(|| ua.clone().gcd_ext(ub.clone())), MSG);
        must_panic(&mut out, "IBig gcd_ext(0,0)", catch(|| (&a).gcd_ext(&b)), MSG);
        must_panic(&mut out, "UBig.gcd_ext(IBig) (0,0)", catch(|| (&ua).gcd_ext(&b)), MSG);
        must_panic(&mut out, "IBig.gcd_ext(UBig) (0,0)", catch(|| (&a).gcd_ext(&ub)), MSG);
        return out;
    }

    let g = ngcd(&nua, &nub);
    // oracle self-check on the definition: g | a, g | b, cofactors coprime
    assert!((&nua % &g).is_zero() && (&nub % &g).is_zero() && ngcd(&(&nua / &g), &(&nub / &g)).is_one());

    out.nontrivial(la >= 2 || lb >= 2);
    // the trait forms of num_integer::Integer (cargo feature num-integer): gcd, lcm, extended_gcd
    {
        use num_integer::Integer as NI;
        let gi = BigInt::from(g.clone());
        match catch(|| (NI::gcd(&a, &b), NI::gcd(&ua, &ub), NI::lcm(&a, &b), NI::lcm(&ua, &ub))) {
            Ok((g1, g2, l1, l2)) => {
                let wl = NI::lcm(&nua, &nub);
                out.check(i2n(&g1) == gi && u2n(&g2) == g, || format!("num_integer::Integer::gcd: got {} / {}, want {}", show_i(&i2n(&g1)), show_u(&u2n(&g2)), show_u(&g)));
                out.check(i2n(&l1).magnitude() == &wl && u2n(&l2) == wl, || format!("num_integer::Integer::lcm: got {} / {}, want {}", show_i(&i2n(&l1)), show_u(&u2n(&l2)), show_u(&wl)));
            }
            Err(m) => out.fail(format!("num_integer::Integer gcd / lcm panicked: {}", normalise(&m))),
        }
        match catch(|| NI::extended_gcd(&a, &b)) {
            Ok(e) => {
                let lhs = i2n(&e.x) * &na + i2n(&e.y) * &nb;
                out.check(i2n(&e.gcd) == gi && lhs == gi, || format!("num_integer::Integer::extended_gcd (IBig): gcd {} with x·a + y·b = {}, want {}", show_i(&i2n(&e.gcd)), show_i(&lhs), show_u(&g)));
            }
            Err(m) => out.fail(format!("num_integer::Integer::extended_gcd (IBig) panicked: {}", normalise(&m))),
        }
    }
    out.label(match (la.min(lb), la.max(lb)) {
        (0, _) => "path:one operand zero",
        (_, 0..=2) => "path:dword × dword",
        (1..=2, _) => "path:large × word/dword",
        _ => "path:large × large (Lehmer)",
    });
    if la.min(lb) >= 3 && la.max(lb) >= 300 {
        out.label("lehmer:double-word guess (len >= 300)");
    }
    if nua == nub {
        out.label("operands equal");
    }
    if low_zero_words(&c.a.mag) > 0 || low_zero_words(&c.b.mag) > 0 {
        out.label("operand with zero low words");
    }
    out.label(match g.to_u64_digits().len() {
        0 | 1 if g.is_one() => "g:1",
        0 | 1 => "g:word",
        2 => "g:dword",
        _ => "g:multi-word",
    });
    out.label(match (c.a.neg, c.b.neg) {
        (false, false) => "sign:++",
        (false, true) => "sign:+-",
        (true, false) => "sign:-+",
        (true, true) => "sign:--",
    });

    // ---- gcd
    eq_u(&mut out, "UBig gcd val.val", catch(|| ua.clone().gcd(ub.clone())), &g);
    eq_u(&mut out, "UBig gcd val.ref", catch(|| ua.clone().gcd(&ub)), &g);
    eq_u(&mut out, "UBig gcd ref.val", catch(|| (&ua).gcd(ub.clone())), &g);
    eq_u(&mut out, "UBig gcd ref.ref", catch(|| (&ua).gcd(&ub)), &g);
    eq_u(&mut out, "UBig gcd ref.ref commuted", catch(|| (&ub).gcd(&ua)), &g);
    eq_u(&mut out, "IBig gcd val.val", catch(|| a.clone().gcd(b.clone())), &g);
    eq_u(&mut out, "IBig gcd val.ref", catch(|| a.clone().gcd(&b)), &g);
    eq_u(&mut out, "IBig gcd ref.val", catch(|| (&a).gcd(b.clone())), &g);
    eq_u(&mut out, "IBig gcd ref.ref", catch(|| (&a).gcd(&b)), &g);
    eq_u(&mut out, "UBig.gcd(IBig) ref.ref", catch(|| (&ua).gcd(&b)), &g);
    eq_u(&mut out, "UBig.gcd(IBig) val.val", catch(|| ua.clone().gcd(b.clone())), &g);
    eq_u(&mut out, "IBig.gcd(UBig) ref.ref", catch(|| (&a).gcd(&ub)), &g);
    eq_u(&mut out, "IBig.gcd(UBig) val.val", catch(|| a.clone().gcd(ub.clone())), &g);

    // ---- gcd_ext: UBig (|a|, |b|), IBig (a, b), mixed
    let (iua, iub) = (BigInt::from(nua.clone()), BigInt::from(nub.clone()));
    let uu = GcdInfo { na: &iua, nb: &iub, g: &g };
    let ii = GcdInfo { na: &na, nb: &nb, g: &g };
    let ui = GcdInfo { na: &iua, nb: &nb, g: &g };
    let iu = GcdInfo { na: &na, nb: &iub, g: &g };
    let mut panics: Vec<(&'static str, ExtFault)> = Vec::new();
    let mut run = |out: &mut Out, what: &'static str, got: Result<(UBig, IBig, IBig), String>, i: &GcdInfo| {
        if let Some(m) = check_ext(out, what, got, i) {
            panics.push((what, m));
        }
    };
    run(&mut out, "UBig gcd_ext val.val", catch(|| ua.clone().gcd_ext(ub.clone())), &uu);
    run(&mut out, "UBig gcd_ext val.ref", catch(|| ua.clone().gcd_ext(&ub)), &uu);
    run(&mut out, "UBig gcd_ext ref.val", catch(|| (&ua).gcd_ext(ub.clone())), &uu);
    run(&mut out, "UBig gcd_ext ref.ref", catch(|| (&ua).gcd_ext(&ub)), &uu);
    run(&mut out, "IBig gcd_ext val.val", catch(|| a.clone().gcd_ext(b.clone())), &ii);
    run(&mut out, "IBig gcd_ext val.ref", catch(|| a.clone().gcd_ext(&b)), &ii);
    run(&mut out, "IBig gcd_ext ref.val", catch(|| (&a).gcd_ext(b.clone())), &ii);
    run(&mut out, "IBig gcd_ext ref.ref", catch(|| (&a).gcd_ext(&b)), &ii);
    run(&mut out, "UBig.gcd_ext(IBig) ref.ref", catch(|| (&ua).gcd_ext(&b)), &ui);
    run(&mut out, "UBig.gcd_ext(IBig) val.val", catch(|| ua.clone().gcd_ext(b.clone())), &ui);
    run(&mut out, "IBig.gcd_ext(UBig) ref.ref", catch(|| (&a).gcd_ext(&ub)), &iu);
    run(&mut out, "IBig.gcd_ext(UBig) val.val", catch(|| a.clone().gcd_ext(ub.clone())), &iu);
    if !panics.is_empty() {
        // the (costly) class predicates are evaluated once per case
        let short = short_cofactor_class(c);
        let invalid = lehmer_accepts_invalid_step(c);
        for (what, f) in panics {
            gcd_ext_fault(&mut out, ctx, what, &f, short, invalid);
        }
    }
    out
}

/// Input class of finding C12/gcd-ext-large-short-cofactor: both operands on the heap (>= 3 words,
/// `gcd_ext_large`), and the Bézout cofactor `b` of the smaller operand S is so short that the
/// post-processing residue `S·b ∓ g` (len(S) + len(b) + 1 words) has fewer words than the larger
/// operand L, by which it is then divided.  `b` is not observable when the call panics; the class
/// is decided with the least-magnitude cofactor (±(S/g)^-1 mod L/g), which is never longer than
/// the one dashu computes.
fn short_cofactor_class(c: &GcdCase) -> bool {
    let (la, lb) = (c.a.mag.trimmed_len(), c.b.mag.trimmed_len());
    if la < 3 || lb < 3 {
        return false;
    }
    let (mut l, mut s) = (c.a.mag.big(), c.b.mag.big());
    if l < s {
        std::mem::swap(&mut l, &mut s);
    }
    if l == s {
        return false;
    }
    let g = ngcd(&l, &s);
    let m = &l / &g;
    let Some(t0) = (&s / &g).modinv(&m) else { return false };
    let tmin = t0.clone().min(&m - &t0);
    let words = |n: &BigUint| n.to_u64_digits().len().max(1);
    words(&s) + words(&tmin) + 1 < words(&l)
}

/// `lehmer_guess` / `lehmer_guess_dword` of integer/src/gcd/lehmer.rs transcribed (u128 arithmetic,
/// `limit` = SignedWord::MAX), plus a flag: did it accept a second-half step that Jebelean's exact
/// condition `x̄_i − x̄_(i+1) >= v_(i+1) − v_i`, i.e. `t + r <= xbar − b`, rejects?  (The source tests
/// `xbar − c`, the bound of the *first* half step; with c < b a quotient that is one too small can be
/// accepted.)
fn lehmer_guess_sim(mut xbar: u128, mut ybar: u128) -> (u128, u128, u128, u128, bool) {
    const LIMIT: u128 = i64::MAX as u128;
    let (mut a, mut b, mut c, mut d) = (1u128, 0u128, 0u128, 1u128);
    let mut invalid = false;
    while ybar != 0 {
        let q = xbar / ybar;
        if q > LIMIT {
            break;
        }
        let (r, s, t) = (a + q * c, b + q * d, xbar - q * ybar);
        if r > LIMIT || s > LIMIT {
            break;
        }
        if t < s || t + r > ybar - c {
            break;
        }
        a = r;
        b = s;
        xbar = t;
        if xbar == b {
            break;
        }
        let q = ybar / xbar;
        if q > LIMIT {
            break;
        }
        let (r, s, t) = (d + q * b, c + q * a, ybar - q * xbar);
        if r > LIMIT || s > LIMIT {
            break;
        }
        if t < s || t + r > xbar - c {
            break;
        }
        if t + r > xbar - b {
            invalid = true; // accepted by the source, rejected by the exact condition
        }
        d = r;
        c = s;
        ybar = t;
        if ybar == c {
            break;
        }
    }
    (a, b, c, d, invalid)
}

/// Input class of finding C12/lehmer-guess-invalid-step: replay the reduction loop of
/// `gcd_ext_in_place` (same guesses on the same leading bits, Euclidean step when the guess fails)
/// on the reference integers until the guess accepts an invalid step.  Up to that point the pair is a
/// pair of true consecutive Euclidean remainders, so the replay is faithful.
fn lehmer_accepts_invalid_step(c: &GcdCase) -> bool {
    let (la, lb) = (c.a.mag.trimmed_len(), c.b.mag.trimmed_len());
    if la < 3 || lb < 3 {
        return false;
    }
    let (mut x, mut y) = (c.a.mag.big(), c.b.mag.big());
    if x < y {
        std::mem::swap(&mut x, &mut y);
    }
    let words = |n: &BigUint| ((n.bits() + 63) / 64) as usize;
    let top = |n: &BigUint, k: u64| -> u128 {
        let v = (n >> k).to_u64_digits();
        v.first().copied().unwrap_or(0) as u128 | ((v.get(1).copied().unwrap_or(0) as u128) << 64)
    };
    while words(&y) > 1 {
        // MIN_DWORD_GUESS_LEN = 300: one-word guess below, two-word guess from there on
        let width = if words(&x) < 300 { 64 } else { 128 };
        let k = x.bits() - width;
        let (ga, gb, gc, gd, invalid) = lehmer_guess_sim(top(&x, k), top(&y, k));
        if invalid {
            return true;
        }
        if gb == 0 {
            let r = &x % &y;
            x = std::mem::replace(&mut y, r);
        } else {
            let (ga, gb, gc, gd) = (BigUint::from(ga), BigUint::from(gb), BigUint::from(gc), BigUint::from(gd));
            let (ax, by, dy, cx) = (&ga * &x, &gb * &y, &gd * &y, &gc * &x);
            if ax < by || dy < cx {
                return false; // cannot happen for valid steps; give up rather than guess
            }
            x = ax - by;
            y = dy - cx;
            if x <= y {
                std::mem::swap(&mut x, &mut y);
            }
        }
    }
    false
}

/// a panic of gcd_ext on non-(0,0) operands is never documented; neither are wrong coefficients
fn gcd_ext_fault(out: &mut Out, ctx: &Ctx, what: &str, f: &ExtFault, short_cofactor: bool, invalid_step: bool) {
    match f {
        ExtFault::Panic(m) => {
            let nm = normalise(m);
            if nm.contains("assertion failed: lhs.len() >= rhs.len() && rhs.len() >= #") && nm.contains("integer/src/div/mod.rs") && short_cofactor {
                ctx.known_or_fail(out, "C12/gcd-ext-large-short-cofactor", || format!("{what}: panic {nm}"));
            } else if nm.contains("assertion `left == right` failed") && nm.contains("integer/src/gcd_ops.rs") && invalid_step {
                // debug_assert_eq!(residue[0], 0): "this division is an exact division" — the cofactor is wrong
                ctx.known_or_fail(out, "C12/lehmer-guess-invalid-step", || format!("{what}: panic {nm}"));
            } else {
                out.fail(format!("{what}: unexpected panic {nm}"));
            }
        }
        ExtFault::Bezout(msg) => {
            // same root cause when the debug assertion cannot see it (it looks at the lowest word of
            // the remainder only, which is 0 whenever both operands have a zero low word)
            if invalid_step {
                ctx.known_or_fail(out, "C12/lehmer-guess-invalid-step", || format!("{what}: {msg}"));
            } else {
                out.fail(format!("{what}: {msg}"));
            }
        }
    }
}

// ------------------------------------------------------------------------------------------
// gcd / gcd_ext on primitives (dashu_base)
// ------------------------------------------------------------------------------------------

fn ref_gcd(mut a: u128, mut b: u128) -> u128 {
    while b != 0 {
        let r = a % b;
        a = b;
        b = r;
    }
    a
}

macro_rules! prim_gcd_w {
    ($out:ident, $c:ident, $U:ty) => {{
        let (a, b) = ($c.a as $U, $c.b as $U);
        let tn = stringify!($U);
        if a == 0 && b == 0 {
            const MSG: &str = "greatest common divisor is not defined";
            must_panic(&mut $out, &format!("{tn} gcd(0,0)"), catch(|| Gcd::gcd(a, b)), MSG);
            must_panic(&mut $out, &format!("{tn} gcd_ext(0,0)"), catch(|| ExtendedGcd::gcd_ext(a, b)), MSG);
        } else {
            let g = ref_gcd(a as u128, b as u128);
            match catch(|| Gcd::gcd(a, b)) {
                Ok(v) => $out.check(v as u128 == g, || format!("{tn} gcd({a},{b}) = {v}, want {g}")),
                Err(m) => $out.fail(format!("{tn} gcd({a},{b}): unexpected panic {}", normalise(&m))),
            }
            match catch(|| ExtendedGcd::gcd_ext(a, b)) {
                Ok((gg, s, t)) => {
                    let lhs = BigInt::from(s) * BigInt::from(a) + BigInt::from(t) * BigInt::from(b);
                    $out.check(gg as u128 == g && lhs == BigInt::from(g), || format!("{tn} gcd_ext({a},{b}) = ({gg},{s},{t}): want g = {g} and s·a + t·b = g (is {lhs})"));
                }
                Err(m) => $out.fail(format!("{tn} gcd_ext({a},{b}): unexpected panic {}", normalise(&m))),
            }
        }
    }};
}

fn prim_gcd(c: &PrimGcd, _ctx: &Ctx) -> Out {
    let mut out = Out::new();
    match c.width {
        0 => {
            out.label("prim:u8");
            out.nontrivial(c.a as u8 != 0 && c.b as u8 != 0);
            prim_gcd_w!(out, c, u8)
        }
        1 => {
            out.label("prim:u16");
            out.nontrivial(c.a as u16 != 0 && c.b as u16 != 0);
            prim_gcd_w!(out, c, u16)
        }
        2 => {
            out.label("prim:u32");
            out.nontrivial(c.a as u32 != 0 && c.b as u32 != 0);
            prim_gcd_w!(out, c, u32)
        }
        3 => {
            out.label("prim:u64");
            out.nontrivial(c.a as u64 != 0 && c.b as u64 != 0);
            prim_gcd_w!(out, c, u64)
        }
        4 => {
            out.label("prim:u128");
            out.nontrivial(c.a != 0 && c.b != 0);
            prim_gcd_w!(out, c, u128)
        }
        _ => {
            out.label("prim:usize");
            out.nontrivial(c.a as usize != 0 && c.b as usize != 0);
            prim_gcd_w!(out, c, usize)
        }
    }
    out
}

fn fib_pair(bits: u32, back: u32) -> (u128, u128) {
    // largest consecutive Fibonacci numbers below 2^bits, `back` steps earlier
    let lim: u128 = if bits >= 128 { u128::MAX } else { (1u128 << bits) - 1 };
    let mut v = vec![1u128, 1u128];
    loop {
        let n = v.len();
        match v[n - 1].checked_add(v[n - 2]) {
            Some(x) if x <= lim => v.push(x),
            _ => break,
        }
    }
    let n = v.len() - 1 - (back as usize).min(v.len() - 2);
    (v[n], v[n - 1])
}

fn prim_gcd_case() -> impl Strategy<Value = PrimGcd> {
    (1u8..6, 0u8..14, any::<u128>(), any::<u128>(), any::<u64>()).prop_map(|(width, shape, x, y, s)| {
        let bits: u32 = match width {
            0 => 8,
            1 => 16,
            2 => 32,
            3 | 5 => 64,
            _ => 128,
        };
        let mask: u128 = if bits == 128 { u128::MAX } else { (1u128 << bits) - 1 };
        let (x, y) = (x & mask, y & mask);
        let half = bits / 2;
        let (a, b) = match shape {
            0 => (0, 0),
            1 => (0, y),
            2 => (x, 0),
            3 => (x, x),
            4 => (mask, 1),
            5 => (mask, mask - 1),
            6 => (1u128 << (bits - 1), y),
            7 => {
                // common factor by construction
                let g = (s as u128 & ((1u128 << (half / 2)) - 1)).max(1);
                let hm = (1u128 << (bits - half / 2 - 1)) - 1;
                (g * (x & hm), g * (y & hm))
            }
            8 => fib_pair(bits, (s % 8) as u32),
            9 => {
                // very different sizes
                (x, y >> (bits - 1 - (s as u32 % (bits - 1))))
            }
            10 => (x << (s as u32 % bits) & mask, y << ((s >> 8) as u32 % bits) & mask),
            _ => (x, y),
        };
        PrimGcd { a, b, width }
    })
}

// ------------------------------------------------------------------------------------------
// roots on UBig / IBig
// ------------------------------------------------------------------------------------------

const NS: [usize; 11] = [1, 2, 3, 4, 5, 7, 8, 16, 63, 64, 65];

/// `r` is floor(x^(1/n)) iff r^n <= x < (r+1)^n.  None = ok.
fn root_wrong(x: &BigUint, n: usize, r: &BigUint) -> Option<String> {
    debug_assert!(n >= 1);
    if x.is_zero() {
        return if r.is_zero() { None } else { Some(format!("root of 0 is {}", show_u(r))) };
    }
    let bits = x.bits() as usize;
    if n >= bits {
        // 1 <= x < 2^n
        return if r.is_one() { None } else { Some(format!("{} but 1^n <= x < 2^n", show_u(r))) };
    }
    // cheap size guard before any big power: r < 2^(bits/n + 1)
    if r.bits() as usize > bits / n + 1 {
        return Some(format!("{} has {} bits, x has {bits}", show_u(r), r.bits()));
    }
    if &npow(r, n) > x {
        return Some(format!("{}: r^n > x", show_u(r)));
    }
    if &npow(&(r + BigUint::one()), n) <= x {
        return Some(format!("{}: (r+1)^n <= x", show_u(r)));
    }
    None
}

fn perfect_label(x: &BigUint, n: usize) -> Option<&'static str> {
    // classify x against the n-th powers with the reference's own root (labels only)
    if n == 0 || n > u32::MAX as usize || x.is_zero() {
        return None;
    }
    let bits = x.bits() as usize;
    if n >= bits {
        return Some(if x.is_one() { "x = 1" } else { "n >= bit length (root 1)" });
    }
    let r = x.nth_root(n as u32);
    let p = npow(&r, n);
    if &p == x {
        Some("x = r^n")
    } else if &(&p + BigUint::one()) == x {
        Some("x = r^n + 1")
    } else if &npow(&(&r + BigUint::one()), n) == &(x + BigUint::one()) {
        Some("x = r^n - 1")
    } else {
        Some("x between powers")
    }
}

fn roots(c: &RootCase, ctx: &Ctx) -> Out {
    let mut out = Out::new();
    let words = c.x.mag.trimmed_len();
    let x = c.x.mag.big();
    let ux = c.x.mag.ubig();
    let ix = c.x.ibig();
    let n = c.n;
    out.nontrivial(words >= 2);
    out.label(match words {
        0 => "words:0",
        1 => "words:1",
        2 => "words:2 (inline dword)",
        3 => "words:3",
        4 => "words:4 (sqrt_rem_42)",
        5 => "words:5",
        6 => "words:6",
        7 => "words:7",
        8 => "words:8",
        9..=70 => "words:9-70",
        _ => "words:>70",
    });
    if words >= 3 {
        out.label(if words % 2 == 1 { "word count odd (>=3)" } else { "word count even (>=4)" });
        out.label(if top_word(&c.x.mag).leading_zeros() & !1 == 0 { "top word normalised (lz < 2)" } else { "top word needs bit shift" });
    }
    out.label(match n {
        0 => "n:0 (documented panic)",
        1 => "n:1",
        2 => "n:2",
        3 => "n:3",
        4..=8 => "n:4-8",
        9..=62 => "n:9-62",
        63..=65 => "n:63-65",
        _ => "n:>65",
    });
    out.label(if c.x.neg { "radicand negative" } else { "radicand >= 0" });
    if let Some(l) = perfect_label(&x, 2) {
        out.label(match l {
            "x = r^n" => "sqrt: perfect square",
            "x = r^n + 1" => "sqrt: square + 1",
            "x = r^n - 1" => "sqrt: square - 1",
            _ => "sqrt: other",
        });
    }
    if n >= 3 {
        if let Some(l) = perfect_label(&x, n) {
            out.label(l);
        }
    }

    // ---------------- the trait forms of num_integer::Roots (cargo feature num-integer)
    if n >= 1 && (n as u64) <= u32::MAX as u64 {
        use num_integer::Roots as NR;
        match catch(|| (NR::sqrt(&ux), NR::cbrt(&ux), NR::nth_root(&ux, n as u32))) {
            Ok((r2, r3, rn)) => {
                for (k, r) in [(2, &r2), (3, &r3), (n, &rn)] {
                    if let Some(e) = root_wrong(&x, k, &u2n(r)) {
                        out.fail(format!("num_integer::Roots for UBig, order {k}: {e}"));
                    }
                }
            }
            Err(m) => out.fail(format!("num_integer::Roots for UBig: unexpected panic {}", normalise(&m))),
        }
        if !c.x.neg {
            match catch(|| (NR::sqrt(&ix), NR::cbrt(&ix), NR::nth_root(&ix, n as u32))) {
                Ok((r2, r3, rn)) => {
                    for (k, r) in [(2, &r2), (3, &r3), (n, &rn)] {
                        if let Some(e) = root_wrong(&x, k, i2n(r).magnitude()) {
                            out.fail(format!("num_integer::Roots for IBig, order {k}: {e}"));
                        }
                    }
                }
                Err(m) => out.fail(format!("num_integer::Roots for IBig: unexpected panic {}", normalise(&m))),
            }
        }
    }

    // ---------------- UBig
    match catch(|| ux.sqrt()) {
        Ok(r) => {
            if let Some(e) = root_wrong(&x, 2, &u2n(&r)) {
                out.fail(format!("UBig::sqrt = {e}"));
            }
        }
        Err(m) => out.fail(format!("UBig::sqrt: unexpected panic {}", normalise(&m))),
    }
    match catch(|| ux.sqrt_rem()) {
        Ok((r, rem)) => {
            let (r, rem) = (u2n(&r), u2n(&rem));
            if let Some(e) = root_wrong(&x, 2, &r) {
                out.fail(format!("UBig::sqrt_rem root = {e}"));
            } else {
                let want = &x - &r * &r;
                if rem != want {
                    sqrt_rem_wrong(&mut out, ctx, c, &rem, &want);
                }
            }
        }
        Err(m) => out.fail(format!("UBig::sqrt_rem: unexpected panic {}", normalise(&m))),
    }
    match catch(|| ux.cbrt()) {
        Ok(r) => {
            if let Some(e) = root_wrong(&x, 3, &u2n(&r)) {
                root_value_wrong(&mut out, ctx, c, 3, &u2n(&r), format!("UBig::cbrt = {e}"));
            }
        }
        Err(m) => out.fail(format!("UBig::cbrt: unexpected panic {}", normalise(&m))),
    }
    match catch(|| ux.cbrt_rem()) {
        Ok((r, rem)) => {
            let (r, rem) = (u2n(&r), u2n(&rem));
            if let Some(e) = root_wrong(&x, 3, &r) {
                root_value_wrong(&mut out, ctx, c, 3, &r, format!("UBig::cbrt_rem root = {e}"));
            } else if rem != &x - npow(&r, 3) {
                out.fail(format!("UBig::cbrt_rem remainder {} want {}", show_u(&rem), show_u(&(&x - npow(&r, 3)))));
            }
        }
        Err(m) => root_panic(&mut out, ctx, c, "UBig::cbrt_rem", &m),
    }
    if n == 0 {
        must_panic(&mut out, "UBig::nth_root(0)", catch(|| ux.nth_root(0)), "0th root");
        must_panic(&mut out, "IBig::nth_root(0)", catch(|| ix.nth_root(0)), "0th root");
    } else {
        match catch(|| ux.nth_root(n)) {
            Ok(r) => {
                if let Some(e) = root_wrong(&x, n, &u2n(&r)) {
                    root_value_wrong(&mut out, ctx, c, n, &u2n(&r), format!("UBig::nth_root({n}) = {e}"));
                }
            }
            Err(m) => out.fail(format!("UBig::nth_root({n}): unexpected panic {}", normalise(&m))),
        }
    }

    // ---------------- IBig: roots truncate toward zero; odd roots of negatives are negative
    // (IBig::nth_root rustdoc: (-4).nth_root(3) = -1); even roots of negatives panic.
    const COMPLEX: &str = "complex number";
    let signed_ok = |r: &IBig, k: usize| -> Option<String> {
        let r = i2n(r);
        if let Some(e) = root_wrong(&x, k, r.magnitude()) {
            return Some(e);
        }
        if c.x.neg != r.is_negative() && !r.is_zero() {
            return Some(format!("{}: sign differs from the radicand's", show_i(&r)));
        }
        if c.x.neg && r.is_zero() {
            return Some("0 for a non-zero radicand".into());
        }
        None
    };
    if c.x.neg {
        must_panic(&mut out, "IBig(neg)::sqrt", catch(|| ix.sqrt()), COMPLEX);
    } else {
        match catch(|| ix.sqrt()) {
            Ok(r) => {
                if let Some(e) = root_wrong(&x, 2, &u2n(&r)) {
                    out.fail(format!("IBig::sqrt = {e}"));
                }
            }
            Err(m) => out.fail(format!("IBig::sqrt: unexpected panic {}", normalise(&m))),
        }
    }
    match catch(|| ix.cbrt()) {
        Ok(r) => {
            if let Some(e) = signed_ok(&r, 3) {
                root_value_wrong(&mut out, ctx, c, 3, i2n(&r).magnitude(), format!("IBig::cbrt = {e}"));
            }
        }
        Err(m) => root_panic(&mut out, ctx, c, "IBig::cbrt", &m),
    }
    if n >= 1 {
        if c.x.neg && n % 2 == 0 {
            must_panic(&mut out, "IBig(neg)::nth_root(even)", catch(|| ix.nth_root(n)), COMPLEX);
        } else {
            match catch(|| ix.nth_root(n)) {
                Ok(r) => {
                    if let Some(e) = signed_ok(&r, n) {
                        root_value_wrong(&mut out, ctx, c, n, i2n(&r).magnitude(), format!("IBig::nth_root({n}) = {e}"));
                    }
                }
                Err(m) => out.fail(format!("IBig::nth_root({n}): unexpected panic {}", normalise(&m))),
            }
        }
    }
    out
}

/// (The odd-word-count defect of `sqrt_rem_large` — remainder returned multiplied by 2^64 when the
/// normalisation shift is exactly one word — was repaired in /repo by c0e45ea; it is pinned by
/// /verif/regress/C12/root_any-sqrt-rem-3words.json and nothing is suppressed here.)
fn sqrt_rem_wrong(out: &mut Out, _ctx: &Ctx, _c: &RootCase, rem: &BigUint, want: &BigUint) {
    out.fail(format!("UBig::sqrt_rem remainder {} want {}", show_u(rem), show_u(want)));
}
/// C12/nth-root-zero-returns-one: `TypedReprRef::nth_root(n >= 3)` answers 1 for every radicand
/// with bit_len <= n, including 0.
fn root_value_wrong(out: &mut Out, ctx: &Ctx, c: &RootCase, n: usize, got: &BigUint, msg: String) {
    if c.x.mag.is_zero() && n >= 3 && got.is_one() {
        ctx.known_or_fail(out, "C12/nth-root-zero-returns-one", || msg);
    } else {
        out.fail(msg);
    }
}
fn root_panic(out: &mut Out, ctx: &Ctx, c: &RootCase, what: &str, m: &str) {
    let nm = normalise(m);
    if what == "UBig::cbrt_rem" && c.x.mag.is_zero() && nm.contains("UBig result must not be negative") {
        // same root cause: cbrt(0) = 1, then 0 − 1^3
        ctx.known_or_fail(out, "C12/nth-root-zero-returns-one", || format!("{what}: panic {nm}"));
    } else if what == "IBig::cbrt" && c.x.neg && nm.contains("the root is a complex number") {
        // C12/ibig-cbrt-negative-panics: `impl CubicRoot for IBig` rejects every negative radicand
        ctx.known_or_fail(out, "C12/ibig-cbrt-negative-panics", || format!("{what}: panic {nm}"));
    } else {
        out.fail(format!("{what}: unexpected panic {nm}"));
    }
}

/// x = s^2 + r with 0 <= r <= 2s chosen: the whole range of remainders for a given root
fn sqrt_case(lo: usize, hi: usize) -> impl Strategy<Value = RootCase> {
    (prop_oneof![1 => Just(Nat(vec![])).boxed(), 24 => gen::nat_len(lo.max(1), hi)], 0u8..10, any::<u64>(), 0u8..8).prop_map(|(s, rsel, seed, neg)| {
        let ns = s.big();
        let two_s = &ns * 2u8;
        let r: BigUint = match rsel {
            0 | 1 => BigUint::zero(),
            2 => BigUint::one().min(two_s.clone()),
            3 => two_s.clone(),
            4 => if two_s.is_zero() { two_s.clone() } else { &two_s - BigUint::one() },
            5 => ns.clone(),
            6 => BigUint::from(seed).min(two_s.clone()),
            _ => Nat(gen::expand(s.trimmed_len().max(1), (seed % 12) as u8, seed)).big() % (&two_s + BigUint::one()),
        };
        let x = Nat::from_big(&(&ns * &ns + r));
        RootCase { x: mk_int(neg == 0, x), n: 2 }
    })
}

/// x = r^n + delta around n-th powers
fn nth_case(cap_bits: usize) -> impl Strategy<Value = RootCase> {
    (gen::nat_nz(Prof::Small), 0u16..=u16::MAX, 0u8..10, 0u8..6, any::<u64>(), 0u8..4).prop_map(move |(r, nsel, dsel, tiny, s, neg)| {
        let n = gen::pick(&NS, nsel);
        let maxw = (cap_bits / n / 64).max(1);
        let r = match tiny {
            0 => Nat(vec![s % 4 + 1]),
            1 => Nat(vec![s % 1000 + 1]),
            _ => nat_or_one(Nat(r.0[..r.trimmed_len().min(maxw)].to_vec())),
        };
        let rb = r.big();
        let p = npow(&rb, n);
        let next = npow(&(&rb + BigUint::one()), n);
        let x = match dsel {
            0 | 1 | 2 => p,
            3 | 4 => p + BigUint::one(),
            5 | 6 => &p - BigUint::one(),
            7 => &next - BigUint::one(),
            _ => {
                let gap = &next - &p;
                let d = Nat(gen::expand(Nat::from_big(&gap).trimmed_len().max(1), (s % 12) as u8, s)).big() % &gap;
                p + d
            }
        };
        RootCase { x: mk_int(neg == 0, Nat::from_big(&x)), n }
    })
}

/// arbitrary radicands of every word count, n from the list / n around the bit length / n = 0
fn root_any(x: BoxedStrategy<Nat>) -> impl Strategy<Value = RootCase> {
    (x, 0u16..=u16::MAX, 0u8..12, any::<u64>(), 0u8..4).prop_map(|(x, nsel, shape, s, neg)| {
        let bits = x.big().bits() as usize;
        let n = match shape {
            0 => 0,
            1 => bits,
            2 => bits + 1,
            3 => bits.saturating_sub(1).max(1),
            4 => usize::MAX,
            5 => bits * 2 + 1,
            6 => (s % 200) as usize + 1,
            7 => (bits / 2).max(1),
            _ => gen::pick(&NS, nsel),
        };
        // bound the cost of the Newton iteration / reference powers for big radicands
        let n = if bits > 8000 && n > 3 && n < bits { 3 } else { n };
        RootCase { x: mk_int(neg == 0, x), n }
    })
}

fn radicand_small() -> BoxedStrategy<Nat> {
    Union::new_weighted(vec![
        (1, Just(Nat(vec![])).boxed()),
        (1, Just(Nat(vec![1])).boxed()),
        (2, (0u64..1000).prop_map(|w| Nat(vec![w])).boxed()),
        (8, gen::nat_len(1, 8)),
        (3, gen::nat_len(9, 40)),
    ])
    .boxed()
}

// ------------------------------------------------------------------------------------------
// roots on primitives (dashu_base)
// ------------------------------------------------------------------------------------------

fn ipow_u(b: u128, e: u32) -> BigUint {
    npow(&BigUint::from(b), e as usize)
}

macro_rules! prim_root_w {
    ($out:ident, $c:ident, $U:ty) => {{
        let x = $c.x as $U;
        let tn = stringify!($U);
        let nx = BigUint::from(x);
        let ok = |r: u128, k: u32| -> bool { ipow_u(r, k) <= nx && ipow_u(r + 1, k) > nx };
        match catch(|| SquareRoot::sqrt(&x)) {
            Ok(r) => $out.check(ok(r as u128, 2), || format!("{tn} sqrt({x}) = {r}")),
            Err(m) => $out.fail(format!("{tn} sqrt({x}): unexpected panic {}", normalise(&m))),
        }
        match catch(|| SquareRootRem::sqrt_rem(&x)) {
            Ok((r, rem)) => $out.check(ok(r as u128, 2) && ipow_u(r as u128, 2) + BigUint::from(rem) == nx, || format!("{tn} sqrt_rem({x}) = ({r},{rem})")),
            Err(m) => $out.fail(format!("{tn} sqrt_rem({x}): unexpected panic {}", normalise(&m))),
        }
        match catch(|| CubicRoot::cbrt(&x)) {
            Ok(r) => $out.check(ok(r as u128, 3), || format!("{tn} cbrt({x}) = {r}")),
            Err(m) => $out.fail(format!("{tn} cbrt({x}): unexpected panic {}", normalise(&m))),
        }
        match catch(|| CubicRootRem::cbrt_rem(&x)) {
            Ok((r, rem)) => $out.check(ok(r as u128, 3) && ipow_u(r as u128, 3) + BigUint::from(rem) == nx, || format!("{tn} cbrt_rem({x}) = ({r},{rem})")),
            Err(m) => $out.fail(format!("{tn} cbrt_rem({x}): unexpected panic {}", normalise(&m))),
        }
    }};
}

fn prim_root(c: &PrimRoot, _ctx: &Ctx) -> Out {
    let mut out = Out::new();
    out.nontrivial(true);
    match c.width {
        0 => {
            out.label("prim:u8");
            prim_root_w!(out, c, u8)
        }
        1 => {
            out.label("prim:u16");
            prim_root_w!(out, c, u16)
        }
        2 => {
            out.label("prim:u32");
            prim_root_w!(out, c, u32)
        }
        3 => {
            out.label("prim:u64");
            prim_root_w!(out, c, u64)
        }
        _ => {
            out.label("prim:u128");
            prim_root_w!(out, c, u128)
        }
    }
    out
}

fn prim_root_case() -> impl Strategy<Value = PrimRoot> {
    (2u8..5, 0u8..16, any::<u128>(), any::<u64>()).prop_map(|(width, shape, v, s)| {
        let bits: u32 = match width {
            2 => 32,
            3 => 64,
            _ => 128,
        };
        let mask: u128 = if bits == 128 { u128::MAX } else { (1u128 << bits) - 1 };
        let v = v & mask;
        let r2 = v & ((1u128 << (bits / 2)) - 1); // any root of a square that fits
        let r3max: u128 = match bits {
            32 => 1625,
            64 => 2642245,
            _ => 6981463658331,
        };
        let r3 = v % (r3max + 1);
        let sh = s as u32 % bits;
        let x = match shape {
            0 => s as u128 % 3,
            1 => mask - (s as u128 % 3),
            2 => r2 * r2,
            3 => (r2 * r2).saturating_sub(1),
            4 => (r2 * r2).checked_add(1).unwrap_or(mask) & mask,
            5 => r3 * r3 * r3,
            6 => (r3 * r3 * r3).saturating_sub(1),
            7 => (r3 * r3 * r3 + 1) & mask,
            8 => v >> sh,
            9 => 1u128 << sh,
            10 => (1u128 << sh).wrapping_sub(1) & mask,
            // perfect powers just above a power of two (where the normalising shift of the root
            // algorithms changes), minus a small amount: k = ceil(root(2^e)) + d, x = k^n - j
            12..=15 => {
                let n: u32 = if shape % 2 == 0 { 2 } else { 3 };
                let e = 3 + (s as u32 >> 8) % (bits - 3);
                let base = num_integer::Roots::nth_root(&(1u128 << e), n);
                let k = base + 1 + (s as u128 >> 40) % 1000;
                let j = [1u128, 1, 2, 3, (s as u128 >> 16) % 100_000][(s % 5) as usize];
                match k.checked_pow(n) {
                    Some(pw) if pw & mask == pw => pw - j.min(pw),
                    _ => mask - j,
                }
            }
            _ => v,
        };
        PrimRoot { x, width }
    })
}

// ------------------------------------------------------------------------------------------
// ilog
// ------------------------------------------------------------------------------------------

fn log_base() -> BoxedStrategy<Nat> {
    Union::new_weighted(vec![
        (3, Just(Nat(vec![2])).boxed()),
        (3, Just(Nat(vec![3])).boxed()),
        (3, Just(Nat(vec![10])).boxed()),
        (3, (1u32..128).prop_map(|k| Nat::from_u128(1u128 << k)).boxed()),
        (1, (128usize..400).prop_map(|k| Nat::from_big(&(BigUint::one() << k))).boxed()),
        (2, Just(Nat(vec![u64::MAX])).boxed()),
        (1, Just(Nat(vec![0, 1])).boxed()),
        (1, Just(Nat(vec![1, 1])).boxed()),
        (2, (2u64..1000).prop_map(|w| Nat(vec![w])).boxed()),
        (3, any::<u64>().prop_map(|w| Nat(vec![w.max(2)])).boxed()),
        (3, gen::nat_len(2, 2)),
        (3, gen::nat_len(3, 6)),
    ])
    .boxed()
}

fn ilog_case(cap_bits: usize) -> impl Strategy<Value = IlogCase> {
    (log_base(), 0usize..400, 0u8..16, any::<u64>(), gen::nat(Prof::Small), 0u8..4, 0u8..40).prop_map(move |(base, e, dsel, s, free, neg, invalid)| {
        // documented panics: x = 0, base 0 or 1
        if invalid < 3 {
            let (x, base) = match invalid {
                0 => (Nat(vec![]), base),
                1 => (nat_or_one(free), Nat(vec![])),
                _ => (nat_or_one(free), Nat(vec![1])),
            };
            return IlogCase { x: mk_int(neg == 0, x), base };
        }
        let nb = base.big();
        let bbits = nb.bits() as usize;
        let e = e % (cap_bits / bbits + 1);
        let p = npow(&nb, e);
        let x: BigUint = match dsel {
            0 | 1 | 2 => p,
            3 | 4 => p + BigUint::one(),
            5 | 6 => {
                if p.is_one() {
                    p
                } else {
                    p - BigUint::one()
                }
            }
            7 => &p * &nb - BigUint::one(),
            8 | 9 => {
                // anywhere in [b^e, b^(e+1))
                let span = &p * (&nb - BigUint::one());
                let d = Nat(gen::expand(Nat::from_big(&span).trimmed_len().max(1), (s % 12) as u8, s)).big() % &span;
                p + d
            }
            // a power plus a relatively small amount: p·(1 + 2^-k) and p + b^j (the estimate of the
            // logarithm is then right at a power, where a word-sized guard decides)
            12 | 13 => {
                let k = 1 + (s % 70) as usize;
                &p + (&p >> k) + BigUint::from(s & 1)
            }
            14 => {
                let j = if e == 0 { 0 } else { (s as usize) % e };
                &p + npow(&nb, j)
            }
            _ => nat_or_one(free).big(),
        };
        IlogCase { x: mk_int(neg == 0, Nat::from_big(&x)), base }
    })
}

/// Ok(b^e) when b^e <= x < b^(e+1)
fn ilog_verify(x: &BigUint, b: &BigUint, e: usize) -> Result<BigUint, String> {
    // e <= log_b x <= bits(x)/(bits(b)-1): size guard before the big power
    let (xb, bb) = (x.bits() as usize, b.bits() as usize);
    if e > xb / (bb - 1) + 1 {
        return Err(format!("{e}, absurdly large (x has {xb} bits, base {bb})"));
    }
    let p = npow(b, e);
    if &p > x {
        return Err(format!("{e}: b^e > |x|"));
    }
    if &(&p * b) <= x {
        return Err(format!("{e}: b^(e+1) <= |x|"));
    }
    Ok(p)
}

fn ilog(c: &IlogCase, ctx: &Ctx) -> Out {
    let mut out = Out::new();
    let x = c.x.mag.big();
    let b = c.base.big();
    let (ux, ix, ub) = (c.x.mag.ubig(), c.x.ibig(), c.base.ubig());
    let (lx, lb) = (c.x.mag.trimmed_len(), c.base.trimmed_len());
    out.nontrivial(lx >= 2 && !b.is_zero() && !b.is_one());
    out.label(if c.x.neg { "x negative (IBig uses |x|)" } else { "x >= 0" });
    if x.is_zero() || b.is_zero() || b.is_one() {
        out.label(if x.is_zero() { "x = 0 (documented panic)" } else { "base < 2 (documented panic)" });
        const MSG: &str = "logarithm is not defined";
        let ru = catch(|| ux.ilog(&ub));
        let ri = catch(|| ix.ilog(&ub));
        for (what, r) in [("UBig::ilog", ru), ("IBig::ilog", ri)] {
            ilog_must_panic(&mut out, ctx, c, what, r, MSG);
        }
        return out;
    }
    out.label(match lb {
        1 if b == BigUint::from(2u8) => "base:2",
        1 if b == BigUint::from(10u8) => "base:10 (cached radix info)",
        1 | 2 if b.count_ones() == 1 => "base:2^k (dword shortcut)",
        1 => "base:word",
        2 => "base:dword",
        _ if b.count_ones() == 1 => "base:2^k multi-word",
        _ => "base:multi-word",
    });
    out.label(match lx {
        0..=2 => "x:dword (log_dword)",
        _ if lb == 1 => "x:large, word base (log_word_base)",
        _ => "x:large (log_large)",
    });
    let mut labelled = false;
    for (what, r) in [("UBig::ilog", catch(|| ux.ilog(&ub))), ("IBig::ilog", catch(|| ix.ilog(&ub)))] {
        match r {
            Ok(e) => match ilog_verify(&x, &b, e) {
                Err(msg) => out.fail(format!("{what} = {msg}")),
                Ok(p) => {
                    // position relative to the powers of the base, from the verified exponent
                    if !labelled {
                        labelled = true;
                        if p == x {
                            out.label("x = b^e");
                        } else if &p + BigUint::one() == x {
                            out.label("x = b^e + 1");
                        } else if &p * &b == &x + BigUint::one() {
                            out.label("x = b^(e+1) - 1");
                        } else {
                            out.label("x between powers");
                        }
                        if e == 0 {
                            out.label("result 0 (x < base)");
                        }
                    }
                }
            },
            Err(m) => out.fail(format!("{what}: unexpected panic {}", normalise(&m))),
        }
    }
    out
}

/// C12/ilog-zero-not-rejected: only `log_dword` rejects a zero operand.  The power-of-two
/// shortcut computes `bit_len() - 1` first (arithmetic-overflow panic with overflow checks,
/// a wrapped result without), and `(RefSmall, RefLarge)` answers 0 before looking at the operand.
fn ilog_must_panic(out: &mut Out, ctx: &Ctx, c: &IlogCase, what: &str, r: Result<usize, String>, msg: &str) {
    let b = c.base.big();
    let pow2_dword = c.base.trimmed_len() <= 2 && b.count_ones() == 1 && !b.is_one();
    let large = c.base.trimmed_len() >= 3;
    if c.x.mag.is_zero() {
        match &r {
            Err(m) if pow2_dword && m.contains("attempt to subtract with overflow") && m.contains("integer/src/log.rs") => {
                let nm = normalise(m);
                return ctx.known_or_fail(out, "C12/ilog-zero-not-rejected", || format!("{what}(0, 2^k): {nm}"));
            }
            Ok(0) if large => {
                return ctx.known_or_fail(out, "C12/ilog-zero-not-rejected", || format!("{what}(0, base >= 2^128) returned 0"));
            }
            _ => {}
        }
    }
    must_panic(out, what, r, msg);
}

// ------------------------------------------------------------------------------------------
// remove
// ------------------------------------------------------------------------------------------

fn remove_case(cap_bits: usize) -> impl Strategy<Value = RemoveCase> {
    let factor = Union::new_weighted(vec![
        (1, Just(Nat(vec![])).boxed()),
        (1, Just(Nat(vec![1])).boxed()),
        (3, Just(Nat(vec![2])).boxed()),
        (3, (1u32..128).prop_map(|k| Nat::from_u128(1u128 << k)).boxed()),
        (1, (128usize..300).prop_map(|k| Nat::from_big(&(BigUint::one() << k))).boxed()),
        (3, Just(Nat(vec![3])).boxed()),
        (2, Just(Nat(vec![10])).boxed()),
        (2, (2u64..1000).prop_map(|w| Nat(vec![w])).boxed()),
        (3, any::<u64>().prop_map(|w| Nat(vec![w | 1])).boxed()),
        (1, Just(Nat(vec![u64::MAX])).boxed()),
        (3, gen::nat_len(2, 2)),
        (3, gen::nat_len(3, 6)),
    ]);
    (factor, gen::nat(Prof::Small), 0usize..300, 0u8..10).prop_map(move |(factor, cof, k, ksel)| {
        let nf = factor.big();
        let fb = (nf.bits() as usize).max(1);
        // exponents around the powers of two used by the two stages of the algorithm
        let k = match ksel {
            0 => 0,
            1 => 1,
            2 => 2,
            3 => 3,
            4 => [4usize, 7, 8, 15, 16, 31, 32, 63, 64][k % 9],
            _ => k,
        };
        let k = k.min(cap_bits / fb);
        let x = if nf.is_zero() || nf.is_one() { cof.big() } else { cof.big() * npow(&nf, k) };
        RemoveCase { x: Nat::from_big(&x), factor }
    })
}

fn remove(c: &RemoveCase, _ctx: &Ctx) -> Out {
    let mut out = Out::new();
    let (x, f) = (c.x.big(), c.factor.big());
    let uf = c.factor.ubig();
    out.nontrivial(c.x.trimmed_len() >= 2 && !f.is_zero() && !f.is_one());
    let r = catch(|| {
        let mut y = c.x.ubig();
        let r = y.remove(&uf);
        (r, y)
    });
    if x.is_zero() || f.is_zero() || f.is_one() {
        out.label("documented None (x = 0 or factor < 2)");
        match r {
            Ok((None, _)) => {}
            Ok((Some(m), _)) => out.fail(format!("UBig::remove returned Some({m}) for x = 0 or factor 0/1 (documented: None)")),
            Err(m) => out.fail(format!("UBig::remove: unexpected panic {}", normalise(&m))),
        }
        return out;
    }
    // reference multiplicity by repeated exact division
    let (mut m, mut rest) = (0usize, x.clone());
    loop {
        let (q, r) = num_integer::Integer::div_rem(&rest, &f);
        if !r.is_zero() {
            break;
        }
        rest = q;
        m += 1;
    }
    out.label(if f.count_ones() == 1 { "factor:2^k (shift shortcut)" } else if c.factor.trimmed_len() == 1 { "factor:word" } else { "factor:multi-word" });
    out.label(match m {
        0 => "multiplicity 0",
        1 => "multiplicity 1",
        2..=3 => "multiplicity 2-3",
        4..=16 => "multiplicity 4-16",
        _ => "multiplicity > 16",
    });
    match r {
        Ok((Some(got), y)) => {
            let y = u2n(&y);
            if got != m {
                out.fail(format!("UBig::remove returned Some({got}), exact multiplicity is {m}"));
            } else if y != rest {
                out.fail(format!("UBig::remove left {} want x / f^{m} = {}", show_u(&y), show_u(&rest)));
            }
        }
        Ok((None, _)) => out.fail(format!("UBig::remove returned None for x != 0 and factor >= 2 (multiplicity {m})")),
        Err(e) => out.fail(format!("UBig::remove: unexpected panic {}", normalise(&e))),
    }
    out
}

// ------------------------------------------------------------------------------------------
// exhaustive enumerations over small primitives (reported through Check::external)
// ------------------------------------------------------------------------------------------

struct Enumerated {
    evaluations: u64,
    nontrivial: u64,
    labels: BTreeMap<&'static str, u64>,
    known: BTreeMap<String, u64>,
    violation: Option<(String, serde_json::Value)>,
}

fn enumerate<C: Serialize>(cases: impl Iterator<Item = C>, f: impl Fn(&C) -> Out) -> Enumerated {
    let mut e = Enumerated { evaluations: 0, nontrivial: 0, labels: BTreeMap::new(), known: BTreeMap::new(), violation: None };
    for c in cases {
        let o = match catch(|| f(&c)) {
            Ok(o) => o,
            Err(m) => {
                let mut o = Out::new();
                o.fail(format!("unexpected panic: {}", normalise(&m)));
                o
            }
        };
        e.evaluations += 1;
        if o.nontrivial {
            e.nontrivial += 1;
        }
        for l in &o.labels {
            *e.labels.entry(*l).or_default() += 1;
        }
        match o.verdict {
            Verdict::Violation(sig) => {
                if e.violation.is_none() {
                    e.violation = Some((sig, serde_json::to_value(&c).unwrap_or(serde_json::Value::Null)));
                }
            }
            Verdict::Known(id) => *e.known.entry(id).or_default() += 1,
            _ => {}
        }
    }
    e
}

/// `--replay` of a case written by one of the exhaustive enumerations (their sub names are not
/// proptest subs, so the engine cannot decode them itself)
fn replay_enumerated(ck: &Check) {
    let args: Vec<String> = std::env::args().collect();
    let Some(p) = args.iter().position(|a| a == "--replay").and_then(|i| args.get(i + 1)) else { return };
    let Ok(txt) = std::fs::read_to_string(p) else { return };
    let Ok(v) = serde_json::from_str::<serde_json::Value>(&txt) else { return };
    let sub = v["sub"].as_str().unwrap_or("").to_string();
    let ctx = Ctx { tier: ck.tier, known: ck.known(), strict: true };
    let o = match sub.as_str() {
        "gcd_u8_exhaustive" => serde_json::from_value::<PrimGcd>(v["case"].clone()).ok().map(|c| prim_gcd(&c, &ctx)),
        "roots_u8_u16_exhaustive" => serde_json::from_value::<PrimRoot>(v["case"].clone()).ok().map(|c| prim_root(&c, &ctx)),
        _ => return,
    };
    match o.map(|o| o.verdict) {
        Some(Verdict::Violation(sig)) => {
            println!("REPLAY property=C12 sub={sub} verdict=violation {sig}");
            println!("VIOLATION property=C12 replay={p}");
            std::process::exit(1);
        }
        Some(v) => {
            println!("REPLAY property=C12 sub={sub} verdict={}", if matches!(v, Verdict::Pass) { "pass".to_string() } else { format!("{v:?}") });
            std::process::exit(0);
        }
        None => infra("cannot decode replay case"),
    }
}

fn exhaustive(ck: &mut Check) {
    if ck.is_replay() {
        replay_enumerated(ck);
        return;
    }
    let known = ck.known().clone();
    let ctx = Ctx { tier: ck.tier, known: &known, strict: false };
    if ck.wants("gcd_u8_exhaustive") {
        let e = enumerate((0u32..65536).map(|i| PrimGcd { a: (i >> 8) as u128, b: (i & 255) as u128, width: 0 }), |c| prim_gcd(c, &ctx));
        let samples = vec![json!({"a": 233, "b": 144, "width": 0}), json!({"a": 255, "b": 1, "width": 0})];
        ck.external("gcd_u8_exhaustive", e.evaluations, e.nontrivial, e.labels, samples, e.violation, Some(json!({"enumeration": "every (a, b) in u8 × u8: gcd and gcd_ext", "known_hits": e.known})));
    }
    if ck.wants("roots_u8_u16_exhaustive") {
        let cases = (0u32..256).map(|x| PrimRoot { x: x as u128, width: 0 }).chain((0u32..65536).map(|x| PrimRoot { x: x as u128, width: 1 }));
        let e = enumerate(cases, |c| prim_root(c, &ctx));
        let samples = vec![json!({"x": 255, "width": 0}), json!({"x": 65535, "width": 1})];
        ck.external("roots_u8_u16_exhaustive", e.evaluations, e.nontrivial, e.labels, samples, e.violation, Some(json!({"enumeration": "every u8 and every u16 value: sqrt, sqrt_rem, cbrt, cbrt_rem", "known_hits": e.known})));
    }
}

/// TODO(C12/log2): `EstimatedLog2::log2_bounds` / `log2_est` for UBig, IBig, FBig, RBig, primitives
/// and f32/f64 (std and `default-features = false` builds) need the interval-arithmetic log2
/// enclosure of C11 (`lb <= log2 x <= ub`, exact comparison at powers of two).  Subs for that
/// clause are registered here once the oracle exists; until then the clause is NOT covered.
fn log2_subs(ck: &mut Check) {
    if !ck.wants("log2_bounds") {
        return;
    }
    use dv::ball::{self, Ball};
    use dv::fl::Sci;
    // both builds of the estimator: f32::log2 (std) and the 8-bit table (default-features = false)
    let builds: Vec<(&str, Result<String, String>)> = vec![
        ("native-std-assert", dv::evalrun::build("native-std-assert", None, true, true)),
        ("native-nostd-assert", dv::evalrun::build("native-nostd-assert", None, false, true)),
    ];
    let mut bins = Vec::new();
    for (n, b) in builds {
        match b {
            Ok(p) => bins.push((n, p)),
            Err(e) => infra(&e),
        }
    }
    // ---- case lines with their exact |x| as a ball-producing closure
    enum X {
        Int(BigInt),
        Ratio(BigInt, BigInt),
        Sci(Sci),
        F64(f64),
    }
    let th = ck.thorough();
    let mut lines: Vec<(String, X, &'static str)> = Vec::new();
    let hx = |n: &BigInt| format!("{}{}", if n.is_negative() { "-" } else { "" }, n.magnitude().to_str_radix(16));
    // sampled wide primitives
    let seed = seed_mix(ck.seed, 0x1062);
    let mut r = gen::SplitMix(seed);
    let n_prim = if th { 200_000 } else { 12_000 };
    for i in 0..n_prim {
        let ty = ["u32", "u64", "u128", "usize", "i32", "i64", "i128", "isize"][i % 8];
        let bits: u32 = match ty {
            "u32" | "i32" => 32,
            "u128" | "i128" => 128,
            _ => 64,
        };
        let signed = ty.starts_with('i');
        let k = r.below(bits as u64 - signed as u64) as u32;
        let mag: u128 = match r.below(5) {
            0 => 1u128 << k,
            1 => (1u128 << k).saturating_sub(1).max(1),
            2 => (1u128 << k) + 1,
            3 => ((r.next() as u128) << 64 | r.next() as u128) >> (128 - k - 1),
            _ => ((r.next() as u128) << 64 | r.next() as u128) >> (128 - bits + signed as u32),
        }
        .max(1);
        let mag = if bits < 128 { mag & ((1u128 << (bits - signed as u32)) - 1) } else if signed { mag >> 1 } else { mag }.max(1);
        let neg = signed && r.below(2) == 0;
        let text = if neg { format!("-{mag}") } else { format!("{mag}") };
        lines.push((format!("plog2 {ty} {text}"), X::Int(BigInt::from(mag)), "log2:wide primitive (sampled)"));
    }
    // floats
    let n_f = if th { 200_000 } else { 12_000 };
    for i in 0..n_f {
        if i % 2 == 0 {
            let bits: u32 = match r.below(5) {
                0 => ((r.below(254) as u32 + 1) << 23) | if r.below(2) == 0 { 0 } else { 1 }, // powers of two (+1 ulp)
                1 => r.below(1 << 23) as u32 + 1,                                              // subnormal
                2 => 0x3f800000u32.wrapping_add(r.below(64) as u32).wrapping_sub(32),          // next to 1.0
                _ => (r.next() as u32) & 0x7fffffff,
            };
            let bits = bits | if r.below(4) == 0 { 0x8000_0000 } else { 0 };
            let v = f32::from_bits(bits);
            if v.is_finite() && v != 0.0 {
                lines.push((format!("flog2 f32 {bits:08x}"), X::F64(v as f64), "log2:f32"));
            }
        } else {
            let bits: u64 = match r.below(5) {
                0 => (r.below(2046) + 1) << 52 | r.below(2),
                1 => r.below(1 << 52) + 1,
                2 => 0x3ff0000000000000u64.wrapping_add(r.below(64)).wrapping_sub(32),
                _ => r.next() & 0x7fff_ffff_ffff_ffff,
            };
            let v = f64::from_bits(bits);
            if v.is_finite() && v != 0.0 {
                lines.push((format!("flog2 f64 {bits:016x}"), X::F64(v), "log2:f64"));
            }
        }
    }
    // big numbers
    let n_big = if th { 60_000 } else { 4_000 };
    let nats = sample_strategy(&gen::nat_nz(Prof::Medium), seed_mix(seed, 1), n_big);
    let dens = sample_strategy(&gen::nat_nz(Prof::Small), seed_mix(seed, 2), n_big);
    for (i, (a, d)) in nats.iter().zip(dens.iter()).enumerate() {
        let ia = BigInt::from(a.big());
        match i % 5 {
            0 => lines.push((format!("biglog2 u {}", hx(&ia)), X::Int(ia), "log2:UBig")),
            1 => lines.push((format!("biglog2 i -{}", hx(&ia)), X::Int(ia), "log2:IBig")),
            2 => {
                let id = BigInt::from(d.big());
                lines.push((format!("biglog2 r {} {}", hx(&ia), hx(&id)), X::Ratio(ia, id), "log2:RBig"))
            }
            3 => {
                let m = BigInt::from(d.big());
                let e = (r.below(200_001) as i64) - 100_000;
                lines.push((format!("biglog2 d {} {} 0", hx(&m), e), X::Sci(Sci::new(m, e, 10)), "log2:FBig base 10"))
            }
            _ => {
                let m = BigInt::from(d.big());
                let e = (r.below(2_000_001) as i64) - 1_000_000;
                lines.push((format!("biglog2 b {} {} 0", hx(&m), e), X::Sci(Sci::new(m, e, 2)), "log2:FBig base 2"))
            }
        }
    }
    // floats whose exponent itself is beyond the f32-exact range (|e| up to 2^62): the bounds are
    // computed from the exponent, which must not be rounded on the way
    let n_fexp = if th { 6_000 } else { 400 };
    for i in 0..n_fexp {
        let mag: i64 = match i % 5 {
            0 => (1i64 << 24) + 1 + r.below(1 << 24) as i64,
            1 => (1i64 << (25 + r.below(37))) + r.below(1 << 20) as i64,
            2 => (1i64 << (24 + r.below(38))) - 1 - r.below(1000) as i64,
            3 => 134_217_728 + r.below(64) as i64 - 32,
            _ => (r.next() >> 2) as i64,
        };
        let e = if r.below(2) == 0 { mag } else { -mag };
        let m = BigInt::from(match r.below(4) {
            0 => 1u64,
            1 => 1 + r.below(99),
            2 => r.next() | 1,
            _ => 0x19,
        });
        if i % 2 == 0 {
            lines.push((format!("biglog2 b {} {} 0", hx(&m), e), X::Sci(Sci::new(m, e, 2)), "log2:FBig base 2, |exponent| above 2^24"));
        } else {
            let m = if (&m % 10u8).is_zero() { m + 1 } else { m };
            lines.push((format!("biglog2 d {} {} 0", hx(&m), e), X::Sci(Sci::new(m, e, 10)), "log2:FBig base 10, |exponent| above 2^24"));
        }
    }
    // exact powers of two and their neighbours, up to exponents that f32 cannot hold exactly
    // (2^24 < n: the bounds must still enclose n although n itself is not an f32)
    let n_pow = if th { 4_000 } else { 300 };
    for i in 0..n_pow {
        let n: u64 = match i % 6 {
            0 => 64 * (1 + r.below(64)) + r.below(3) - 1,        // around word boundaries
            1 => (1u64 << (4 + r.below(19))) + r.below(3) - 1,   // 2^j - 1, 2^j, 2^j + 1
            2 => 129 + r.below(100_000),
            3 => (1u64 << 24) + 1 + 2 * r.below(1 << 22),        // odd, above 2^24: not an f32
            4 => (1u64 << 25) + 1 + r.below(1 << 24),
            _ => (1u64 << (24 + r.below(3))) + [1u64, 2, 3, 5, 7][r.below(5) as usize],
        };
        let d: i64 = if n <= 1 << 20 { r.below(3) as i64 - 1 } else { 0 };
        let x = if d == 0 { X::Sci(Sci::new(BigInt::one(), n as i64, 2)) } else { X::Int((BigInt::one() << n as usize) + d) };
        lines.push((format!("biglog2 p {n} {d}"), x, if n > 1 << 24 { "log2:UBig power of two, exponent above 2^24" } else if d == 0 { "log2:UBig power of two" } else { "log2:UBig power of two ± 1" }));
    }
    let exhaustive_types = ["u8", "i8", "u16", "i16"];
    let mut all_lines: Vec<String> = lines.iter().map(|l| l.0.clone()).collect();
    for t in exhaustive_types {
        all_lines.push(format!("plog2all {t}"));
    }

    let parse3 = |s: &str| -> Option<(f32, f32, f32)> {
        let mut it = s.split_whitespace().map(|t| u32::from_str_radix(t, 16).ok().map(f32::from_bits));
        Some((it.next()??, it.next()??, it.next()??))
    };
    // |x| as f64 log2 (fast filter) and as a rigorous enclosure (fallback)
    let truth_f64 = |x: &X| -> f64 {
        match x {
            X::Int(n) => {
                let b = n.bits();
                let top = (n.magnitude() >> b.saturating_sub(60)).to_u64_digits().first().copied().unwrap_or(0) as f64;
                top.log2() + b.saturating_sub(60) as f64
            }
            X::F64(v) => v.abs().log2(),
            _ => f64::NAN,
        }
    };
    let truth_ball = |x: &X| -> Option<Ball> {
        let w = 128;
        let b = match x {
            X::Int(n) => Ball::from_int(&n.abs()),
            X::Ratio(n, d) => Ball::from_int(&n.abs()).div(&Ball::from_int(d), w)?,
            X::Sci(s) => {
                // log2(m·B^e) = log2 m + e·log2 B, so that huge exponents are never materialised
                let lm = ball::log2(&Ball::from_int(&s.n.abs()), w)?;
                let lb = ball::log2(&Ball::from_u64(s.base), w)?;
                return Some(lm.add(&lb.mul_int(&BigInt::from(s.e), w), w));
            }
            X::F64(v) => {
                let bits = v.abs().to_bits();
                let e = ((bits >> 52) & 0x7ff) as i64;
                let frac = (bits & ((1u64 << 52) - 1)) as i64;
                let (m, ex) = if e == 0 { (frac, -1074) } else { (frac | (1 << 52), e - 1075) };
                Ball::exact(BigInt::from(m), ex)
            }
        };
        ball::log2(&b, w)
    };
    let f32_sci = |f: f32| -> Option<Sci> {
        if !f.is_finite() {
            return None;
        }
        let bits = f.to_bits();
        let e = ((bits >> 23) & 0xff) as i64;
        let frac = (bits & 0x7fffff) as i64;
        let (m, ex) = if e == 0 { (frac, -149) } else { (frac | 0x800000, e - 150) };
        Some(Sci::new(BigInt::from(if bits >> 31 == 1 { -m } else { m }), ex, 2))
    };
    let judge = |desc: &str, x: &X, ans: &str, build: &str| -> Result<(), String> {
        if ans == "PANIC" {
            return Err(format!("{desc}: log2_bounds panicked in the {build} build"));
        }
        let (lb, ub, est) = parse3(ans).ok_or_else(|| format!("{desc}: unreadable answer '{ans}' ({build})"))?;
        if lb.is_nan() || ub.is_nan() || est.is_nan() || !(lb <= ub) {
            return Err(format!("{desc}: bounds ({lb}, {ub}) est {est} are not ordered numbers ({build})"));
        }
        if !(lb <= est && est <= ub) {
            return Err(format!("{desc}: estimate {est} outside its own bounds ({lb}, {ub}) ({build})"));
        }
        let t = truth_f64(x);
        if t.is_finite() && (lb as f64) < t - 1e-9 && (ub as f64) > t + 1e-9 {
            return Ok(());
        }
        let enc = truth_ball(x).ok_or_else(|| format!("{desc}: oracle could not enclose log2"))?;
        if let Some(s) = f32_sci(lb) {
            if ball::side(&enc, &s) == ball::Side::Above {
                return Err(format!("{desc}: lower bound {lb} exceeds the true log2 ({build} build)"));
            }
        } else if lb == f32::INFINITY {
            return Err(format!("{desc}: lower bound +inf ({build})"));
        }
        if let Some(s) = f32_sci(ub) {
            if ball::side(&enc, &s) == ball::Side::Below {
                return Err(format!("{desc}: upper bound {ub} is below the true log2 ({build} build)"));
            }
        } else if ub == f32::NEG_INFINITY {
            return Err(format!("{desc}: upper bound -inf ({build})"));
        }
        Ok(())
    };

    // ---- replay of one case line (every build again)
    if ck.is_replay() {
        if let Some(case) = ck.replay_case("log2_bounds") {
            let line = case["line"].as_str().unwrap_or("").to_string();
            let a: Vec<&str> = line.split_whitespace().collect();
            let ph = |t: &str| BigInt::parse_bytes(t.trim_start_matches('-').as_bytes(), 16);
            let x: Option<X> = match (a.first().copied(), a.get(1).copied()) {
                (Some("plog2"), Some(_)) => a.get(2).and_then(|t| t.trim_start_matches('-').parse::<u128>().ok()).map(|m| X::Int(BigInt::from(m))),
                (Some("flog2"), Some("f32")) => a.get(2).and_then(|t| u32::from_str_radix(t, 16).ok()).map(|b| X::F64(f32::from_bits(b) as f64)),
                (Some("flog2"), Some("f64")) => a.get(2).and_then(|t| u64::from_str_radix(t, 16).ok()).map(|b| X::F64(f64::from_bits(b))),
                (Some("biglog2"), Some("u")) | (Some("biglog2"), Some("i")) => a.get(2).and_then(|t| ph(t)).map(X::Int),
                (Some("biglog2"), Some("r")) => match (a.get(2).and_then(|t| ph(t)), a.get(3).and_then(|t| ph(t))) {
                    (Some(n), Some(d)) => Some(X::Ratio(n, d)),
                    _ => None,
                },
                (Some("biglog2"), Some(k @ ("d" | "b"))) => match (a.get(2).and_then(|t| ph(t)), a.get(3).and_then(|t| t.parse::<i64>().ok())) {
                    (Some(m), Some(e)) => Some(X::Sci(Sci::new(m, e, if k == "d" { 10 } else { 2 }))),
                    _ => None,
                },
                (Some("biglog2"), Some("p")) => match (a.get(2).and_then(|t| t.parse::<u64>().ok()), a.get(3).and_then(|t| t.parse::<i64>().ok())) {
                    (Some(n), Some(0)) => Some(X::Sci(Sci::new(BigInt::one(), n as i64, 2))),
                    (Some(n), Some(d)) => Some(X::Int((BigInt::one() << n as usize) + d)),
                    _ => None,
                },
                _ => None,
            };
            let res = match x {
                None => Err(format!("unreadable case line '{line}'")),
                Some(x) => {
                    let mut r = Ok(());
                    for (bname, bin) in &bins {
                        match dv::evalrun::run(bin, &[line.clone()], &format!("c12-log2-replay-{bname}")) {
                            Ok(ans) => {
                                if let Err(sig) = judge(&line, &x, &ans[0], bname) {
                                    r = Err(sig);
                                    break;
                                }
                            }
                            Err(e) => infra(&e),
                        }
                    }
                    r
                }
            };
            ck.replay_verdict("log2_bounds", &case, res);
        }
        return;
    }

    let mut labels: BTreeMap<&'static str, u64> = BTreeMap::new();
    let mut evaluations = 0u64;
    let mut violation: Option<(String, serde_json::Value)> = None;
    let mut samples = Vec::new();
    for (bname, bin) in &bins {
        let answers = match dv::evalrun::run(bin, &all_lines, &format!("c12-log2-{bname}")) {
            Ok(a) => a,
            Err(e) => infra(&e),
        };
        for (i, (line, x, label)) in lines.iter().enumerate() {
            evaluations += 1;
            *labels.entry(label).or_default() += 1;
            if samples.len() < 4 && i % 997 == 0 {
                samples.push(json!({"case": line, "build": bname, "answer (lb ub est as f32 bits)": answers[i]}));
            }
            if violation.is_none() {
                if let Err(sig) = judge(line, x, &answers[i], bname) {
                    violation = Some((sig, json!({"line": line, "build": bname})));
                }
            }
        }
        // exhaustive 8/16-bit primitives
        for (k, t) in exhaustive_types.iter().enumerate() {
            let ans = &answers[lines.len() + k];
            let toks: Vec<&str> = ans.split_whitespace().collect();
            let (min, count): (i64, usize) = match *t {
                "u8" => (0, 256),
                "i8" => (-128, 256),
                "u16" => (0, 65536),
                _ => (-32768, 65536),
            };
            if toks.len() != 3 * count {
                infra(&format!("plog2all {t}: {} tokens", toks.len()));
            }
            for j in 0..count {
                let v = min + j as i64;
                if v == 0 {
                    continue;
                }
                evaluations += 1;
                *labels.entry("log2:every u8/i8/u16/i16 value (exhaustive)").or_default() += 1;
                if violation.is_none() {
                    let a3 = format!("{} {} {}", toks[3 * j], toks[3 * j + 1], toks[3 * j + 2]);
                    if let Err(sig) = judge(&format!("plog2 {t} {v}"), &X::Int(BigInt::from(v)), &a3, bname) {
                        violation = Some((sig, json!({"line": format!("plog2 {t} {v}"), "build": bname})));
                    }
                }
            }
        }
    }
    let distinct = (lines.len() + 2 * 65535 + 2 * 255) as u64;
    ck.external(
        "log2_bounds",
        evaluations,
        distinct,
        labels,
        samples,
        violation,
        Some(json!({"builds": bins.iter().map(|b| b.0).collect::<Vec<_>>(), "exhaustive": "every non-zero u8, i8, u16, i16 value in both builds", "sampled_lines": lines.len()})),
    );
}

fn main() {
    let mut ck = Check::new(
        "C12",
        "gcd/gcd_ext: pairs by construction — structured pairs (equal, a±1, multiples, unbalanced), one operand zero, (g·x, g·y), Fibonacci-like pairs (all quotients 1), continued fractions with chosen partial quotients around 2^63/2^64 (Lehmer quotient overflow), a = b·q + r with q ≈ 2^64·k, operands with zero low words/bits (incl. pure powers of two), both zero; UBig/IBig/mixed in all ownership forms; g compared with num-integer's gcd and s·a + t·b = g evaluated exactly. Primitives: every u8 pair, structured u16..u128/usize. Roots: x = s² + r for every remainder class, x = r^n + {0, ±1, random} for n in {1,2,3,4,5,7,8,16,63,64,65}, n around/above the bit length, n = 0, every word count 0..8 and larger, both signs; r^n <= x < (r+1)^n and rem = x − r^n in num-bigint; every u8 and u16 value plus structured u32/u64/u128 for the primitive impls. ilog: x = b^e + {0, ±1, random} for bases 2, 3, 10, 2^k, 2^64−1, 2^64, 2^64+1, word, dword, multi-word; b^e <= |x| < b^(e+1). remove: x = c·f^k, exact multiplicity by repeated division. Documented panics asserted with their message. Non-trivial: a big operand of >= 2 words (primitives: non-zero operands); distinct by case digest. log2_bounds/log2_est: lb <= log2|x| <= ub and lb <= est <= ub for every non-zero u8/i8/u16/i16 value, sampled wider primitives, f32/f64 classes, UBig/IBig/RBig/FBig (exponents to ±10^6), in both the std build and the default-features=false build (8-bit table), judged with a rigorous log2 enclosure.",
    );
    ck.assume("num-integer 0.1 `Integer::gcd` for BigUint as the reference gcd (self-checked per case: g | a, g | b, coprime cofactors)");
    let th = ck.thorough();
    let big = if th { 3000 } else { 800 };

    // ---- gcd
    ck.sub("gcd_small", (22_000, 660_000), || gcd_case(Prof::Small, 12), gcd_big);
    ck.sub("gcd_medium", (7_000, 210_000), || gcd_case(Prof::Medium, 70), gcd_big);
    ck.sub("gcd_large", (300, 9_000), move || gcd_case(if th { Prof::Huge } else { Prof::Large }, big), gcd_big);
    // the Lehmer double-word guesses start at 300 words: operand lengths on both sides of that size,
    // with every small difference between the two word counts (the alignment of the leading words
    // of the shorter operand is a case split on that difference), with and without a common factor
    ck.sub(
        "gcd_lehmer_dword",
        (240, 7_000),
        || {
            let las: Vec<usize> = vec![298, 299, 300, 301, 302, 303, 310, 330, 364, 420];
            (prop::sample::select(las), 0usize..6, 0u8..gen::N_PATTERNS, 0u8..gen::N_PATTERNS, any::<u64>(), any::<u64>(), 0u8..3, any::<bool>(), any::<bool>()).prop_map(|(la, gap, pa, pb, sa, sb, common, na, nb)| {
                let lb = la - gap;
                let (mut a, mut b) = (Nat(gen::expand(la, pa, sa)).big(), Nat(gen::expand(lb, pb, sb)).big());
                if common > 0 {
                    // a shared factor of one or three words (the operands grow by its length)
                    let g = Nat(gen::expand(if common == 1 { 1 } else { 3 }, 1, sa ^ sb)).big();
                    a *= &g;
                    b *= &g;
                }
                GcdCase { a: mk_int(na, Nat::from_big(&a)), b: mk_int(nb, Nat::from_big(&b)), class: if common > 0 { 2 } else { 0 } }
            })
        },
        gcd_big,
    );
    // chosen partial quotients in front of 300+-word tails: (p, q) <- (k·p + q, p) for a list of
    // quotients k mixing small ones (mostly 3) with quotients just below / around the cofactor limits
    // of the double-word guess (2^58..2^64, 2^64 + small) and multi-word ones — the exactness tests of
    // lehmer_guess_dword only bind for "huge, small, small, huge, multi-word" shapes. Lean runner:
    // gcd and gcd_ext of the magnitudes only (the call forms are covered by the other gcd subs).
    ck.sub(
        "gcd_lehmer_dword_quotients",
        (8_000, 400_000),
        || {
            (300usize..=312, 0usize..6, any::<u64>(), 0u8..8, 0usize..3).prop_map(|(lp, gap, seed, shape, pre)| {
                let (p, q) = gen::lehmer_quotient_pair(lp, gap, seed, shape, pre);
                GcdCase { a: mk_int(false, Nat::from_big(&p)), b: mk_int(false, Nat::from_big(&q)), class: 0 }
            })
        },
        |c: &GcdCase, _ctx: &Ctx| {
            let mut out = Out::new();
            let (ua, ub) = (c.a.mag.ubig(), c.b.mag.ubig());
            let (nua, nub) = (c.a.mag.big(), c.b.mag.big());
            out.nontrivial(true);
            out.label("lehmer:double-word guess, chosen partial quotients");
            let g = ngcd(&nua, &nub);
            match catch(|| ((&ua).gcd(&ub), (&ua).gcd_ext(&ub), (&ub).gcd_ext(&ua))) {
                Err(m) => out.fail(format!("UBig gcd / gcd_ext panicked: {}", normalise(&m))),
                Ok((g1, (g2, s, t), (g3, s3, t3))) => {
                    out.check(u2n(&g1) == g, || format!("UBig::gcd: got {}, want {}", show_u(&u2n(&g1)), show_u(&g)));
                    let gi = BigInt::from(g.clone());
                    let lhs = i2n(&s) * BigInt::from(nua.clone()) + i2n(&t) * BigInt::from(nub.clone());
                    out.check(u2n(&g2) == g && lhs == gi, || format!("UBig::gcd_ext(a, b): g = {} and s·a + t·b = {}, want {}", show_u(&u2n(&g2)), show_i(&lhs), show_u(&g)));
                    let lhs3 = i2n(&s3) * BigInt::from(nub.clone()) + i2n(&t3) * BigInt::from(nua.clone());
                    out.check(u2n(&g3) == g && lhs3 == gi, || format!("UBig::gcd_ext(b, a): g = {} and s·b + t·a = {}, want {}", show_u(&u2n(&g3)), show_i(&lhs3), show_u(&g)));
                }
            }
            out
        },
    );
    ck.sub("gcd_prim", (12_000, 360_000), prim_gcd_case, prim_gcd);

    // ---- roots
    ck.sub("sqrt_small", (12_000, 360_000), || sqrt_case(0, 6), roots);
    ck.sub("sqrt_medium", (3_000, 90_000), || sqrt_case(7, 40), roots);
    ck.sub("sqrt_large", (150, 4_500), move || sqrt_case(41, if th { 1500 } else { 300 }), roots);
    ck.sub("nth_root_powers", (10_000, 300_000), move || nth_case(if th { 40_000 } else { 12_000 }), roots);
    ck.sub("root_any", (8_000, 240_000), || root_any(radicand_small()), roots);
    ck.sub("root_any_large", (150, 4_500), move || root_any(gen::nat_len(41, if th { 1200 } else { 250 })), roots);
    ck.sub("roots_prim", (10_000, 300_000), prim_root_case, prim_root);

    // ---- ilog, remove
    ck.sub("ilog", (12_000, 360_000), move || ilog_case(if th { 40_000 } else { 10_000 }), ilog);
    ck.sub("remove", (8_000, 240_000), move || remove_case(if th { 40_000 } else { 10_000 }), remove);

    // ---- exhaustive small primitives
    exhaustive(&mut ck);

    // ---- log2_bounds / log2_est: hook, oracle pending
    log2_subs(&mut ck);

    ck.finish();
}
