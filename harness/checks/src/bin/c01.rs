//! C01 — integer ring arithmetic is exact (differential against num-bigint + identities).
use dashu_int::{IBig, UBig};
use dv::gen::{self, Prof};
use dv::*;
use num_bigint::{BigInt, BigUint};
use num_traits::{One, Pow, Zero};
use proptest::prelude::*;
use serde::{Deserialize, Serialize};

#[derive(Debug, Clone, Hash, Serialize, Deserialize)]
struct UPair {
    a: Nat,
    b: Nat,
    rel: u8,
}

#[derive(Debug, Clone, Hash, Serialize, Deserialize)]
struct IPair {
    a: Int,
    b: Int,
    rel: u8,
}

#[derive(Debug, Clone, Hash, Serialize, Deserialize)]
struct PrimCase {
    a: Int,
    p: i128,
    width: u8, // 0..6: 8,16,32,64,128,size
}

#[derive(Debug, Clone, Hash, Serialize, Deserialize)]
struct PowCase {
    base: Int,
    exp: usize,
}

fn upair(prof: Prof) -> impl Strategy<Value = UPair> {
    gen::nat_pair(prof).prop_map(|(a, b, rel)| UPair { a, b, rel })
}
fn ipair(prof: Prof) -> impl Strategy<Value = IPair> {
    (gen::nat_pair(prof), any::<bool>(), any::<bool>()).prop_map(|((a, b, rel), sa, sb)| IPair {
        a: Int { neg: sa && !a.is_zero(), mag: a },
        b: Int { neg: sb && !b.is_zero(), mag: b },
        rel,
    })
}

fn mul_algo(la: usize, lb: usize) -> &'static str {
    let m = la.min(lb);
    if m <= 2 {
        "mul:word/dword"
    } else if m <= 24 {
        "mul:simple"
    } else if m <= 192 {
        "mul:karatsuba"
    } else {
        "mul:toom3"
    }
}

macro_rules! forms {
    // evaluates `a op b` in the four ownership forms plus the two assign forms, each under catch
    ($a:expr, $b:expr, $op:tt, $opa:tt) => {{
        let (a, b) = (&$a, &$b);
        let mut v = Vec::new();
        v.push(("val.val", catch(|| a.clone() $op b.clone())));
        v.push(("val.ref", catch(|| a.clone() $op b)));
        v.push(("ref.val", catch(|| a $op b.clone())));
        v.push(("ref.ref", catch(|| a $op b)));
        v.push(("assign.val", catch(|| { let mut x = a.clone(); x $opa b.clone(); x })));
        v.push(("assign.ref", catch(|| { let mut x = a.clone(); x $opa b; x })));
        v
    }};
}

fn cmp_u(out: &mut Out, what: &str, form: &str, got: &Result<UBig, String>, want: Option<&BigUint>) {
    match (got, want) {
        (Ok(g), Some(w)) => {
            if &u2n(g) != w {
                out.fail(format!("{what} [{form}] wrong value: got {} want {}", show_u(&u2n(g)), show_u(w)));
            }
        }
        (Err(_), None) => {}
        (Ok(g), None) => out.fail(format!("{what} [{form}] must panic (result below zero) but returned {}", show_u(&u2n(g)))),
        (Err(m), Some(_)) => out.fail(format!("{what} [{form}] unexpected panic: {}", normalise(m))),
    }
}
fn cmp_i(out: &mut Out, what: &str, form: &str, got: &Result<IBig, String>, want: &BigInt) {
    match got {
        Ok(g) => {
            if &i2n(g) != want {
                out.fail(format!("{what} [{form}] wrong value: got {} want {}", show_i(&i2n(g)), show_i(want)));
            }
        }
        Err(m) => out.fail(format!("{what} [{form}] unexpected panic: {}", normalise(m))),
    }
}

fn ubig_binops(c: &UPair, _ctx: &Ctx) -> Out {
    let mut out = Out::new();
    let (a, b) = (c.a.ubig(), c.b.ubig());
    let (na, nb) = (c.a.big(), c.b.big());
    let (la, lb) = (c.a.trimmed_len(), c.b.trimmed_len());
    out.nontrivial(la > 1 || lb > 1);
    out.label(gen::repr_class(la));
    out.label(gen::REL_LABELS[c.rel as usize]);
    out.label(mul_algo(la, lb));
    let sum = &na + &nb;
    let sum_len = sum.to_u64_digits().len();
    if sum_len > la.max(lb) {
        out.label("add:carry grew length");
    }
    if la.max(lb) <= 2 && sum_len >= 3 {
        out.label("add:crossed inline->heap");
    }
    for (form, r) in forms!(a, b, +, +=) {
        cmp_u(&mut out, "UBig add", form, &r, Some(&sum));
    }
    let diff = if na >= nb { Some(&na - &nb) } else { None };
    if let Some(d) = &diff {
        let dl = d.to_u64_digits().len();
        if dl < la {
            out.label("sub:borrow shrank length");
        }
        if la >= 3 && dl <= 2 {
            out.label("sub:crossed heap->inline");
        }
    } else {
        out.label("sub:below zero (must panic)");
    }
    for (form, r) in forms!(a, b, -, -=) {
        cmp_u(&mut out, "UBig sub", form, &r, diff.as_ref());
    }
    let prod = &na * &nb;
    for (form, r) in forms!(a, b, *, *=) {
        cmp_u(&mut out, "UBig mul", form, &r, Some(&prod));
    }
    // commuted multiplication takes a different large/small path
    cmp_u(&mut out, "UBig mul", "ref.ref commuted", &catch(|| &b * &a), Some(&prod));
    out
}

fn ibig_binops(c: &IPair, _ctx: &Ctx) -> Out {
    let mut out = Out::new();
    let (a, b) = (c.a.ibig(), c.b.ibig());
    let (na, nb) = (c.a.big(), c.b.big());
    let (la, lb) = (c.a.mag.trimmed_len(), c.b.mag.trimmed_len());
    out.nontrivial(la > 1 || lb > 1);
    out.label(gen::repr_class(la));
    out.label(match (c.a.neg, c.b.neg) {
        (false, false) => "sign:++",
        (false, true) => "sign:+-",
        (true, false) => "sign:-+",
        (true, true) => "sign:--",
    });
    out.label(mul_algo(la, lb));
    let (sum, diff, prod) = (&na + &nb, &na - &nb, &na * &nb);
    if (c.a.neg != c.b.neg) && sum.magnitude().to_u64_digits().len() < la.max(lb) {
        out.label("signed add: cancellation shrank length");
    }
    for (form, r) in forms!(a, b, +, +=) {
        cmp_i(&mut out, "IBig add", form, &r, &sum);
    }
    for (form, r) in forms!(a, b, -, -=) {
        cmp_i(&mut out, "IBig sub", form, &r, &diff);
    }
    for (form, r) in forms!(a, b, *, *=) {
        cmp_i(&mut out, "IBig mul", form, &r, &prod);
    }
    // mixed UBig (x) IBig: the unsigned side is |a| resp. |b|
    let ua = c.a.mag.ubig();
    let ub = c.b.mag.ubig();
    let nua = BigInt::from(c.a.mag.big());
    let nub = BigInt::from(c.b.mag.big());
    cmp_i(&mut out, "UBig+IBig", "val.val", &catch(|| ua.clone() + b.clone()), &(&nua + &nb));
    cmp_i(&mut out, "UBig+IBig", "ref.ref", &catch(|| &ua + &b), &(&nua + &nb));
    cmp_i(&mut out, "UBig-IBig", "ref.val", &catch(|| &ua - b.clone()), &(&nua - &nb));
    cmp_i(&mut out, "UBig-IBig", "val.ref", &catch(|| ua.clone() - &b), &(&nua - &nb));
    cmp_i(&mut out, "UBig*IBig", "ref.ref", &catch(|| &ua * &b), &(&nua * &nb));
    cmp_i(&mut out, "UBig*IBig", "val.val", &catch(|| ua.clone() * b.clone()), &(&nua * &nb));
    cmp_i(&mut out, "IBig+UBig", "ref.ref", &catch(|| &a + &ub), &(&na + &nub));
    cmp_i(&mut out, "IBig+UBig", "val.val", &catch(|| a.clone() + ub.clone()), &(&na + &nub));
    cmp_i(&mut out, "IBig-UBig", "val.ref", &catch(|| a.clone() - &ub), &(&na - &nub));
    cmp_i(&mut out, "IBig-UBig", "ref.val", &catch(|| &a - ub.clone()), &(&na - &nub));
    cmp_i(&mut out, "IBig*UBig", "ref.val", &catch(|| &a * ub.clone()), &(&na * &nub));
    cmp_i(&mut out, "IBig*UBig", "val.ref", &catch(|| a.clone() * &ub), &(&na * &nub));
    cmp_i(&mut out, "IBig+=UBig", "assign", &catch(|| { let mut x = a.clone(); x += ub.clone(); x }), &(&na + &nub));
    cmp_i(&mut out, "IBig-=UBig", "assign", &catch(|| { let mut x = a.clone(); x -= &ub; x }), &(&na - &nub));
    cmp_i(&mut out, "IBig*=UBig", "assign", &catch(|| { let mut x = a.clone(); x *= &ub; x }), &(&na * &nub));
    // negation
    cmp_i(&mut out, "IBig neg", "val", &catch(|| -a.clone()), &(-&na));
    cmp_i(&mut out, "IBig neg", "ref", &catch(|| -&a), &(-&na));
    out
}

macro_rules! prim_unsigned {
    ($out:ident, $a:ident, $na:ident, $ua:ident, $nua:ident, $p:expr, $t:ty) => {{
        let p: $t = $p as $t;
        let np = BigInt::from(p);
        let nup = BigUint::from(p);
        // UBig with unsigned primitive
        cmp_u(&mut $out, concat!("UBig+", stringify!($t)), "val.val", &catch(|| $ua.clone() + p), Some(&(&$nua + &nup)));
        cmp_u(&mut $out, concat!("UBig+", stringify!($t)), "ref.ref", &catch(|| &$ua + &p), Some(&(&$nua + &nup)));
        cmp_u(&mut $out, concat!(stringify!($t), "+UBig"), "val.ref", &catch(|| p + &$ua), Some(&(&$nua + &nup)));
        cmp_u(&mut $out, concat!("UBig*", stringify!($t)), "ref.val", &catch(|| &$ua * p), Some(&(&$nua * &nup)));
        cmp_u(&mut $out, concat!(stringify!($t), "*UBig"), "val.val", &catch(|| p * $ua.clone()), Some(&(&$nua * &nup)));
        cmp_u(&mut $out, concat!("UBig+=", stringify!($t)), "assign", &catch(|| { let mut x = $ua.clone(); x += p; x }), Some(&(&$nua + &nup)));
        cmp_u(&mut $out, concat!("UBig*=", stringify!($t)), "assign", &catch(|| { let mut x = $ua.clone(); x *= &p; x }), Some(&(&$nua * &nup)));
        let d = if $nua >= nup { Some(&$nua - &nup) } else { None };
        cmp_u(&mut $out, concat!("UBig-", stringify!($t)), "val.val", &catch(|| $ua.clone() - p), d.as_ref());
        cmp_u(&mut $out, concat!("UBig-", stringify!($t)), "ref.val", &catch(|| &$ua - p), d.as_ref());
        cmp_u(&mut $out, concat!("UBig-=", stringify!($t)), "assign", &catch(|| { let mut x = $ua.clone(); x -= p; x }), d.as_ref());
        // primitive - UBig: exact difference or panic
        {
            let want = if nup >= $nua { Some(&nup - &$nua) } else { None };
            cmp_u(&mut $out, concat!(stringify!($t), "-UBig"), "val.ref", &catch(|| p - &$ua), want.as_ref());
        }
        // IBig with unsigned primitive
        cmp_i(&mut $out, concat!("IBig+", stringify!($t)), "val.val", &catch(|| $a.clone() + p), &(&$na + &np));
        cmp_i(&mut $out, concat!("IBig-", stringify!($t)), "ref.val", &catch(|| &$a - p), &(&$na - &np));
        cmp_i(&mut $out, concat!(stringify!($t), "-IBig"), "val.ref", &catch(|| p - &$a), &(&np - &$na));
        cmp_i(&mut $out, concat!("IBig*", stringify!($t)), "ref.ref", &catch(|| &$a * &p), &(&$na * &np));
        cmp_i(&mut $out, concat!(stringify!($t), "*IBig"), "val.val", &catch(|| p * $a.clone()), &(&$na * &np));
        cmp_i(&mut $out, concat!("IBig-=", stringify!($t)), "assign", &catch(|| { let mut x = $a.clone(); x -= p; x }), &(&$na - &np));
    }};
}
macro_rules! prim_signed {
    ($out:ident, $a:ident, $na:ident, $p:expr, $t:ty) => {{
        let p: $t = $p as $t;
        let np = BigInt::from(p);
        cmp_i(&mut $out, concat!("IBig+", stringify!($t)), "val.val", &catch(|| $a.clone() + p), &(&$na + &np));
        cmp_i(&mut $out, concat!("IBig+", stringify!($t)), "ref.ref", &catch(|| &$a + &p), &(&$na + &np));
        cmp_i(&mut $out, concat!(stringify!($t), "+IBig"), "val.ref", &catch(|| p + &$a), &(&$na + &np));
        cmp_i(&mut $out, concat!("IBig-", stringify!($t)), "ref.val", &catch(|| &$a - p), &(&$na - &np));
        cmp_i(&mut $out, concat!(stringify!($t), "-IBig"), "val.val", &catch(|| p - $a.clone()), &(&np - &$na));
        cmp_i(&mut $out, concat!("IBig*", stringify!($t)), "val.ref", &catch(|| $a.clone() * &p), &(&$na * &np));
        cmp_i(&mut $out, concat!(stringify!($t), "*IBig"), "ref.val", &catch(|| &p * $a.clone()), &(&$na * &np));
        cmp_i(&mut $out, concat!("IBig+=", stringify!($t)), "assign", &catch(|| { let mut x = $a.clone(); x += p; x }), &(&$na + &np));
        cmp_i(&mut $out, concat!("IBig-=", stringify!($t)), "assign", &catch(|| { let mut x = $a.clone(); x -= &p; x }), &(&$na - &np));
        cmp_i(&mut $out, concat!("IBig*=", stringify!($t)), "assign", &catch(|| { let mut x = $a.clone(); x *= p; x }), &(&$na * &np));
    }};
}

fn prim_ops(c: &PrimCase, _ctx: &Ctx) -> Out {
    let mut out = Out::new();
    let a = c.a.ibig();
    let na = c.a.big();
    let ua = c.a.mag.ubig();
    let nua = c.a.mag.big();
    out.nontrivial(c.a.mag.trimmed_len() >= 1 && c.p != 0);
    out.label(gen::repr_class(c.a.mag.trimmed_len()));
    let p = c.p;
    match c.width {
        0 => {
            out.label("prim:8");
            prim_unsigned!(out, a, na, ua, nua, p, u8);
            prim_signed!(out, a, na, p, i8);
        }
        1 => {
            out.label("prim:16");
            prim_unsigned!(out, a, na, ua, nua, p, u16);
            prim_signed!(out, a, na, p, i16);
        }
        2 => {
            out.label("prim:32");
            prim_unsigned!(out, a, na, ua, nua, p, u32);
            prim_signed!(out, a, na, p, i32);
        }
        3 => {
            out.label("prim:64");
            prim_unsigned!(out, a, na, ua, nua, p, u64);
            prim_signed!(out, a, na, p, i64);
        }
        4 => {
            out.label("prim:128");
            prim_unsigned!(out, a, na, ua, nua, p, u128);
            prim_signed!(out, a, na, p, i128);
        }
        _ => {
            out.label("prim:size");
            prim_unsigned!(out, a, na, ua, nua, p, usize);
            prim_signed!(out, a, na, p, isize);
        }
    }
    out
}

fn sqr_cubic(c: &Int, _ctx: &Ctx) -> Out {
    let mut out = Out::new();
    let l = c.mag.trimmed_len();
    out.nontrivial(l > 1);
    out.label(gen::repr_class(l));
    out.label(if l <= 2 { "sqr:inline" } else if l <= 30 { "sqr:simple" } else { "sqr:via mul" });
    let a = c.ibig();
    let u = c.mag.ubig();
    let na = c.big();
    let nu = c.mag.big();
    let sq = &nu * &nu;
    let cu = &sq * &nu;
    cmp_u(&mut out, "UBig::sqr", "-", &catch(|| u.sqr()), Some(&sq));
    cmp_u(&mut out, "UBig::cubic", "-", &catch(|| u.cubic()), Some(&cu));
    cmp_u(&mut out, "IBig::sqr", "-", &catch(|| a.sqr()), Some(&sq));
    cmp_i(&mut out, "IBig::cubic", "-", &catch(|| a.cubic()), &(&na * &na * &na));
    // the equal-operand shortcut of `*`
    cmp_u(&mut out, "UBig a*a", "ref.ref", &catch(|| &u * &u), Some(&sq));
    cmp_u(&mut out, "UBig a*a.clone()", "val.val", &catch(|| u.clone() * u.clone()), Some(&sq));
    cmp_i(&mut out, "IBig a*a", "ref.ref", &catch(|| &a * &a), &BigInt::from(sq.clone()));
    out
}

fn pow_case(c: &PowCase, _ctx: &Ctx) -> Out {
    let mut out = Out::new();
    let l = c.base.mag.trimmed_len();
    out.nontrivial(c.exp >= 2 && !c.base.mag.is_zero());
    out.label(match l {
        0 => "pow:base 0",
        1 => "pow:word base",
        2 => "pow:dword base",
        _ => "pow:large base",
    });
    out.label(match c.exp {
        0 => "exp:0",
        1 => "exp:1",
        2 => "exp:2",
        3..=8 => "exp:3-8",
        9..=64 => "exp:9-64",
        _ => "exp:>64",
    });
    let nb = c.base.mag.big();
    if !nb.is_zero() && nb.trailing_zeros().unwrap_or(0) > 0 {
        out.label("pow:base has trailing zero bits");
    }
    if nb.is_one() {
        out.label("pow:base 1");
    }
    let want_u: BigUint = Pow::pow(&nb, c.exp);
    let want_i: BigInt = Pow::pow(&c.base.big(), c.exp);
    let u = c.base.mag.ubig();
    let a = c.base.ibig();
    // the inherent method (named explicitly: with num_traits::Pow in scope `u.pow(e)` on an owned
    // value resolves to the by-value trait impl) and both trait forms of the num-traits feature
    cmp_u(&mut out, "UBig::pow", "-", &catch(|| UBig::pow(&u, c.exp)), Some(&want_u));
    cmp_i(&mut out, "IBig::pow", "-", &catch(|| IBig::pow(&a, c.exp)), &want_i);
    cmp_u(&mut out, "num_traits::Pow for UBig", "val", &catch(|| Pow::pow(u.clone(), c.exp)), Some(&want_u));
    cmp_u(&mut out, "num_traits::Pow for UBig", "ref", &catch(|| Pow::pow(&u, c.exp)), Some(&want_u));
    cmp_i(&mut out, "num_traits::Pow for IBig", "val", &catch(|| Pow::pow(a.clone(), c.exp)), &want_i);
    cmp_i(&mut out, "num_traits::Pow for IBig", "ref", &catch(|| Pow::pow(&a, c.exp)), &want_i);
    out
}

/// metamorphic identities on large operands (independent of the reference's own big multiply)
fn identities(c: &IPair, _ctx: &Ctx) -> Out {
    let mut out = Out::new();
    let (a, b) = (c.a.ibig(), c.b.ibig());
    let (la, lb) = (c.a.mag.trimmed_len(), c.b.mag.trimmed_len());
    out.nontrivial(la > 2 && lb > 2);
    out.label(mul_algo(la, lb));
    out.label(gen::repr_class(la.max(lb)));
    let r = catch(|| {
        let s = &a + &b;
        let back = &s - &b;
        let ab = &a * &b;
        let ba = &b * &a;
        let lhs = s.sqr();
        let rhs = IBig::from(a.sqr()) + IBig::from(b.sqr()) + &ab + &ab;
        let d = &a - &b;
        let lhs2 = &s * &d;
        let rhs2 = IBig::from(a.sqr()) - IBig::from(b.sqr());
        (i2n(&back) == i2n(&a), i2n(&ab) == i2n(&ba), u2n(&lhs) == i2n(&rhs).magnitude().clone() && i2n(&rhs) >= BigInt::zero(), i2n(&lhs2) == i2n(&rhs2), ab)
    });
    match r {
        Err(m) => out.fail(format!("identities: unexpected panic {}", normalise(&m))),
        Ok((i1, i2, i3, i4, ab)) => {
            out.check(i1, || "(a+b)-b != a".into());
            out.check(i2, || "a*b != b*a".into());
            out.check(i3, || "(a+b)^2 != a^2+b^2+2ab".into());
            out.check(i4, || "(a+b)(a-b) != a^2-b^2".into());
            // anchor to the reference as well
            let want = c.a.big() * c.b.big();
            out.check(i2n(&ab) == want, || "a*b differs from num-bigint".into());
        }
    }
    out
}

fn main() {
    let mut ck = Check::new(
        "C01",
        "pairs (a,b) of structured big integers (length classes straddling inline/heap, schoolbook/Karatsuba/Toom-3, square shortcuts; patterns all-ones, 2^k±small, sparse, carry chains; derived operands b=a, a±1, k·a, unbalanced) run through + - * in every ownership/assign form, mixed UBig/IBig and primitive forms, sqr/cubic/pow; oracle = num-bigint through raw words plus algebraic identities. Non-trivial: at least one operand longer than one word (pow: exponent >= 2 and base != 0); distinct = distinct case digest.",
    );
    let big = if ck.thorough() { Prof::Giant } else { Prof::Huge };
    // products and squares of block-structured operands whose lengths sit on the switch points of
    // the multiplication algorithms and of their recursion (Karatsuba from 25 words, Toom-3 from
    // 193, Toom-3 calling itself from 3·192 = 576)
    ck.sub(
        "mul_blocks",
        (40_000, 800_000),
        || {
            let lens: Vec<usize> = vec![24, 25, 26, 48, 49, 50, 96, 99, 192, 193, 194, 195, 196, 198, 384, 385, 387, 576, 577, 578, 579, 582, 600, 609, 768, 1152];
            (prop::sample::select(lens.clone()), prop::sample::select(lens), 0u8..10, 0u8..4, 0u8..4, any::<u64>(), any::<u64>()).prop_map(|(la, lb0, same, pa, pb, sa, sb)| {
                let lb = if same < 7 { la } else { lb0 };
                // mostly the block pattern, sometimes all ones / alternating / sparse
                let pat = |p: u8| [12u8, 12, 2, 6][p as usize];
                UPair { a: Nat(gen::expand(la, pat(pa), sa)), b: Nat(gen::expand(lb, pat(pb), sb)), rel: 0 }
            })
        },
        |c: &UPair, _ctx: &Ctx| {
            let mut out = Out::new();
            let (a, b) = (c.a.ubig(), c.b.ubig());
            let (na, nb) = (c.a.big(), c.b.big());
            let (la, lb) = (c.a.trimmed_len(), c.b.trimmed_len());
            out.nontrivial(true);
            out.label(mul_algo(la, lb));
            out.label(if la == lb { "blocks: equal lengths" } else { "blocks: different lengths" });
            out.label(if la.min(lb) >= 576 { "blocks: Toom-3 recursion (>= 576 words)" } else if la.min(lb) >= 193 { "blocks: Toom-3" } else { "blocks: Karatsuba / schoolbook" });
            let prod = &na * &nb;
            cmp_u(&mut out, "UBig mul (blocks)", "ref.ref", &catch(|| &a * &b), Some(&prod));
            cmp_u(&mut out, "UBig mul (blocks)", "commuted", &catch(|| &b * &a), Some(&prod));
            let sq = &na * &na;
            cmp_u(&mut out, "UBig sqr (blocks)", "sqr()", &catch(|| a.sqr()), Some(&sq));
            out
        },
    );
    // products whose longer factor is k·len(shorter) + r words: after the k equal-length blocks the
    // left-over r-word slice is multiplied *on top of* the high half of the last block (non-zero
    // accumulator, inter-chunk carries of mul/helpers.rs), by schoolbook chunks for r <= 24
    ck.sub(
        "mul_leftover",
        (500, 12_000),
        || {
            let lb = prop_oneof![3 => 25usize..=60, 3 => 193usize..=400, 2 => 1024usize..=1100, 3 => 2048usize..=2300];
            (lb, 1usize..=3, 0u8..8, 1usize..=30, any::<u64>(), 0u8..4, 0u8..4, any::<u64>(), any::<u64>()).prop_map(|(lb, k, rsel, r0, rs, pa, pb, sa, sb)| {
                let k = if lb >= 1024 { k.min(2) } else { k };
                let r = match rsel {
                    0..=4 => r0,                                     // 1..30: around the schoolbook threshold
                    5 => 1 + (rs % (lb as u64 - 1)) as usize,        // anywhere below one block
                    6 => lb - 1 - (rs % 24) as usize,
                    _ => 0,
                };
                let la = k * lb + r;
                let pat = |p: u8| [2u8, 12, 12, 1][p as usize];
                UPair { a: Nat(gen::expand(la, pat(pa), sa)), b: Nat(gen::expand(lb, pat(pb), sb)), rel: 0 }
            })
        },
        |c: &UPair, _ctx: &Ctx| {
            let mut out = Out::new();
            let (a, b) = (c.a.ubig(), c.b.ubig());
            let (na, nb) = (c.a.big(), c.b.big());
            let (la, lb) = (c.a.trimmed_len(), c.b.trimmed_len());
            out.nontrivial(true);
            out.label(mul_algo(la, lb));
            let r = if lb == 0 { 0 } else { la % lb };
            out.label(match r {
                0 => "leftover: none",
                1..=24 => "leftover: 1-24 words (schoolbook)",
                _ => "leftover: > 24 words",
            });
            out.label(if lb >= 2048 { "leftover: block >= 2048 words (schoolbook chunks of 1024)" } else if lb >= 1024 { "leftover: block 1024..2047 words" } else { "leftover: block < 1024 words" });
            let prod = &na * &nb;
            cmp_u(&mut out, "UBig mul (leftover)", "ref.ref", &catch(|| &a * &b), Some(&prod));
            cmp_u(&mut out, "UBig mul (leftover)", "commuted", &catch(|| &b * &a), Some(&prod));
            out
        },
    );
    ck.sub("ubig_binops_small", (60_000, 1_500_000), || upair(Prof::Small), ubig_binops);
    ck.sub("ubig_binops_large", (6_000, 150_000), || upair(Prof::Large), ubig_binops);
    ck.sub("ubig_binops_huge", (400, 10_000), move || upair(big), ubig_binops);
    ck.sub("ibig_binops_small", (60_000, 1_500_000), || ipair(Prof::Small), ibig_binops);
    ck.sub("ibig_binops_large", (5_000, 120_000), || ipair(Prof::Large), ibig_binops);
    ck.sub(
        "prim_ops",
        (40_000, 1_000_000),
        || {
            (gen::int(Prof::Small), any::<i128>(), 0u8..6, 0u8..6).prop_map(|(a, p, width, shape)| {
                // shape: boundary values of the primitive
                let p = match shape {
                    0 => 0,
                    1 => 1,
                    2 => -1,
                    3 => i128::MAX,
                    4 => i128::MIN,
                    _ => p,
                };
                PrimCase { a, p, width }
            })
        },
        prim_ops,
    );
    ck.sub("sqr_cubic", (25_000, 600_000), || gen::int(Prof::Large), sqr_cubic);
    ck.sub("sqr_cubic_huge", (300, 6_000), move || gen::int(big), sqr_cubic);
    ck.sub(
        "pow",
        (25_000, 600_000),
        || {
            (gen::int(Prof::Small), 0u16..=u16::MAX, 0usize..400, any::<u64>()).prop_map(|(mut base, shape, e, s)| {
                // special bases: 0, 1, 2, 2^k, odd word, word with trailing zeros
                match shape % 16 {
                    0 => base.mag = Nat(vec![]),
                    1 => base.mag = Nat(vec![1]),
                    2 => base.mag = Nat(vec![2]),
                    3 => base.mag = Nat(vec![1u64 << (s % 64)]),
                    4 => base.mag = Nat(vec![(s % 1000) + 2]),
                    5 => base.mag = Nat(vec![((s % 1000) + 1) << (s % 20)]),
                    6 => base.mag = Nat(vec![s | 1]),
                    7 => base.mag = Nat(vec![s, 1 + (s >> 60)]),
                    _ => {}
                }
                if base.mag.is_zero() {
                    base.neg = false;
                }
                // cap result size: exp * bits(base) <= ~ 200k bits
                let bits = (base.mag.trimmed_len() as usize * 64).max(1);
                let cap = (200_000 / bits).max(3);
                let exp = if bits <= 64 && base.mag.0.first().map(|w| *w <= 2).unwrap_or(true) { e * 50 } else { e.min(cap) };
                PowCase { base, exp }
            })
        },
        pow_case,
    );
    ck.sub("identities_large", (3_000, 60_000), || ipair(Prof::Large), identities);
    ck.sub("identities_huge", (300, 6_000), move || ipair(big), identities);
    ck.finish();
}
