//! Plain-data operand types for cases (hex in replay files) and the bridge between dashu and
//! the num-bigint reference.  The bridge goes through raw words only (`from_words`/`as_words`,
//! a copy + trim); it is cross-checked through the decimal-string path in C07.

use dashu_base::Sign;
use dashu_int::{IBig, UBig};
use num_bigint::{BigInt, BigUint, Sign as NSign};
use num_rational::BigRational;
use serde::{Deserialize, Deserializer, Serialize, Serializer};
use std::fmt;

/// Natural number as little-endian 64-bit words (not necessarily trimmed).
#[derive(Clone, PartialEq, Eq, Hash, Default)]
pub struct Nat(pub Vec<u64>);

impl Nat {
    pub fn trimmed_len(&self) -> usize {
        let mut n = self.0.len();
        while n > 0 && self.0[n - 1] == 0 {
            n -= 1;
        }
        n
    }
    pub fn is_zero(&self) -> bool {
        self.trimmed_len() == 0
    }
    pub fn to_hex(&self) -> String {
        let n = self.trimmed_len();
        if n == 0 {
            return "0".into();
        }
        let mut s = format!("{:x}", self.0[n - 1]);
        for i in (0..n - 1).rev() {
            s.push_str(&format!("{:016x}", self.0[i]));
        }
        s
    }
    pub fn from_hex(s: &str) -> Result<Nat, String> {
        let s = s.trim_start_matches("0x");
        let bytes = s.as_bytes();
        let mut words = Vec::new();
        let mut end = bytes.len();
        while end > 0 {
            let start = end.saturating_sub(16);
            let chunk = std::str::from_utf8(&bytes[start..end]).map_err(|e| e.to_string())?;
            words.push(u64::from_str_radix(chunk, 16).map_err(|e| format!("{e}: {chunk}"))?);
            end = start;
        }
        Ok(Nat(words))
    }
    pub fn ubig(&self) -> UBig {
        UBig::from_words(&self.0)
    }
    pub fn big(&self) -> BigUint {
        words_to_big(&self.0)
    }
    pub fn from_big(b: &BigUint) -> Nat {
        Nat(b.to_u64_digits())
    }
    pub fn from_u128(v: u128) -> Nat {
        Nat(vec![v as u64, (v >> 64) as u64])
    }
}

impl fmt::Debug for Nat {
    fn fmt(&self, f: &mut fmt::Formatter) -> fmt::Result {
        let h = self.to_hex();
        if h.len() > 80 {
            write!(f, "0x{}..{}[{}w]", &h[..24], &h[h.len() - 24..], self.trimmed_len())
        } else {
            write!(f, "0x{h}")
        }
    }
}

impl Serialize for Nat {
    fn serialize<S: Serializer>(&self, s: S) -> Result<S::Ok, S::Error> {
        s.serialize_str(&self.to_hex())
    }
}
impl<'de> Deserialize<'de> for Nat {
    fn deserialize<D: Deserializer<'de>>(d: D) -> Result<Nat, D::Error> {
        let s = String::deserialize(d)?;
        Nat::from_hex(&s).map_err(serde::de::Error::custom)
    }
}

/// Signed integer in sign-magnitude form.
#[derive(Clone, PartialEq, Eq, Hash, Default, Serialize, Deserialize)]
pub struct Int {
    pub neg: bool,
    pub mag: Nat,
}

impl fmt::Debug for Int {
    fn fmt(&self, f: &mut fmt::Formatter) -> fmt::Result {
        write!(f, "{}{:?}", if self.neg { "-" } else { "+" }, self.mag)
    }
}

impl Int {
    pub fn ibig(&self) -> IBig {
        IBig::from_parts(if self.neg { Sign::Negative } else { Sign::Positive }, self.mag.ubig())
    }
    pub fn big(&self) -> BigInt {
        let m = self.mag.big();
        if self.neg {
            -BigInt::from(m)
        } else {
            BigInt::from(m)
        }
    }
    pub fn from_big(b: &BigInt) -> Int {
        Int { neg: b.sign() == NSign::Minus, mag: Nat::from_big(b.magnitude()) }
    }
    pub fn from_i128(v: i128) -> Int {
        Int { neg: v < 0, mag: Nat::from_u128(v.unsigned_abs()) }
    }
    pub fn is_zero(&self) -> bool {
        self.mag.is_zero()
    }
}

pub fn words_to_big(w: &[u64]) -> BigUint {
    let mut digits = Vec::with_capacity(w.len() * 2);
    for x in w {
        digits.push(*x as u32);
        digits.push((*x >> 32) as u32);
    }
    BigUint::new(digits)
}

/// dashu -> reference, through raw words
pub fn u2n(d: &UBig) -> BigUint {
    words_to_big(d.as_words())
}
pub fn i2n(d: &IBig) -> BigInt {
    let (s, w) = d.as_sign_words();
    let m = words_to_big(w);
    BigInt::from_biguint(if s == Sign::Negative { NSign::Minus } else { NSign::Plus }, m)
}
/// reference -> dashu, through raw words
pub fn n2u(b: &BigUint) -> UBig {
    UBig::from_words(&b.to_u64_digits())
}
pub fn n2i(b: &BigInt) -> IBig {
    IBig::from_parts(if b.sign() == NSign::Minus { Sign::Negative } else { Sign::Positive }, n2u(b.magnitude()))
}

pub fn rat(n: &IBig, d: &UBig) -> BigRational {
    BigRational::new(i2n(n), BigInt::from(u2n(d)))
}

pub fn show_u(b: &BigUint) -> String {
    let s = b.to_str_radix(16);
    if s.len() > 70 {
        format!("0x{}..{}[{}b]", &s[..20], &s[s.len() - 20..], b.bits())
    } else {
        format!("0x{s}")
    }
}
pub fn show_i(b: &BigInt) -> String {
    format!("{}{}", if b.sign() == NSign::Minus { "-" } else { "" }, show_u(b.magnitude()))
}
