//! Rigorous ball arithmetic (midpoint-radius, binary floating point with arbitrary exponent)
//! used as the enclosure oracle for exp / ln / powers / log2 (DESIGN.md §C11).
//!
//! A `Ball { m, r, e }` denotes the set of reals { x : |x - m·2^e| <= r·2^e }.  Every operation
//! returns a ball that contains the exact result for every choice of points in the input balls
//! (outward rounding).  Soundness rests on this small kernel: `norm`, `add`, `mul`, `inv`, the
//! Taylor tail bounds in `exp_small`, `ln1p_small`, and the inequality |ln(1+t) - t| <= t^2 for
//! |t| <= 1/2 used in `ln`.

use crate::fl::Sci;
use num_bigint::{BigInt, BigUint, Sign};
use num_integer::Integer;
use num_traits::{One, Pow, Signed, ToPrimitive, Zero};
use std::cmp::Ordering;

#[derive(Clone, Debug)]
pub struct Ball {
    pub m: BigInt,
    pub r: BigUint,
    pub e: i64,
}

fn bits_i(x: &BigInt) -> i64 {
    x.bits() as i64
}

impl Ball {
    pub fn exact(m: BigInt, e: i64) -> Ball {
        Ball { m, r: BigUint::zero(), e }
    }
    pub fn from_int(n: &BigInt) -> Ball {
        Ball::exact(n.clone(), 0)
    }
    pub fn from_u64(n: u64) -> Ball {
        Ball::exact(BigInt::from(n), 0)
    }
    pub fn one() -> Ball {
        Ball::from_u64(1)
    }
    pub fn zero() -> Ball {
        Ball::exact(BigInt::zero(), 0)
    }

    /// Reduce the midpoint to about `w` bits, moving the truncation error into the radius.
    pub fn norm(mut self, w: u64) -> Ball {
        let mb = self.m.bits().max(self.r.bits());
        if mb > w + 2 {
            let s = mb - w;
            // floor shift of m loses < 1 unit; ceil shift of r
            let m2: BigInt = &self.m >> s; // floor for negatives too (BigInt >> is arithmetic floor)
            let mut r2: BigUint = &self.r >> s;
            r2 += 2u8; // +1 ceil of r, +1 floor of m
            self.m = m2;
            self.r = r2;
            self.e += s as i64;
        }
        self
    }

    pub fn neg(&self) -> Ball {
        Ball { m: -&self.m, r: self.r.clone(), e: self.e }
    }

    /// |x| upper bound as (integer, exponent)
    fn abs_ub(&self) -> BigUint {
        self.m.magnitude() + &self.r
    }
    /// does the ball contain zero?
    pub fn contains_zero(&self) -> bool {
        self.m.magnitude() <= &self.r
    }
    /// strictly positive for every point?
    pub fn is_positive(&self) -> bool {
        self.m.is_positive() && self.m.magnitude() > &self.r
    }
    pub fn is_negative(&self) -> bool {
        self.m.is_negative() && self.m.magnitude() > &self.r
    }

    pub fn add(&self, o: &Ball, w: u64) -> Ball {
        // align both operands to a common exponent e0 that keeps at least w+64 bits below the
        // top of the larger operand; what falls below e0 moves into the radius
        let top = |x: &Ball| x.e.saturating_add(x.m.bits().max(x.r.bits()) as i64);
        let t = top(self).max(top(o));
        let e0 = self.e.min(o.e).max(t.saturating_sub(w.min(1 << 40) as i64 + 64));
        let conv = |x: &Ball| -> (BigInt, BigUint) {
            if x.e >= e0 {
                let s = (x.e - e0) as u64;
                (&x.m << s, &x.r << s)
            } else {
                let s = (e0 - x.e) as u64;
                (&x.m >> s, (&x.r >> s) + 2u8)
            }
        };
        let (ma, ra) = conv(self);
        let (mb, rb) = conv(o);
        Ball { m: ma + mb, r: ra + rb, e: e0 }.norm(w)
    }
    pub fn sub(&self, o: &Ball, w: u64) -> Ball {
        self.add(&o.neg(), w)
    }
    pub fn mul(&self, o: &Ball, w: u64) -> Ball {
        let m = &self.m * &o.m;
        let r = self.m.magnitude() * &o.r + o.m.magnitude() * &self.r + &self.r * &o.r;
        Ball { m, r, e: self.e + o.e }.norm(w)
    }
    pub fn sqr(&self, w: u64) -> Ball {
        self.mul(self, w)
    }
    pub fn mul_pow2(&self, k: i64) -> Ball {
        Ball { m: self.m.clone(), r: self.r.clone(), e: self.e + k }
    }
    /// multiply by an exact integer
    pub fn mul_int(&self, k: &BigInt, w: u64) -> Ball {
        Ball { m: &self.m * k, r: &self.r * k.magnitude(), e: self.e }.norm(w)
    }
    /// divide by an exact positive machine integer, outward rounding
    pub fn div_u64(&self, k: u64, w: u64) -> Ball {
        // scale up first so that the quotient keeps w bits
        let s = (w + 64).saturating_sub(self.m.bits());
        let m = &self.m << s;
        let r = &self.r << s;
        let kk = BigInt::from(k);
        let q = m.div_floor(&kk);
        let rq = (r + BigUint::from(k - 1)) / BigUint::from(k) + 1u8;
        Ball { m: q, r: rq, e: self.e - s as i64 }.norm(w)
    }
    /// 1/x for a ball not containing zero
    pub fn inv(&self, w: u64) -> Option<Ball> {
        if self.contains_zero() {
            return None;
        }
        let lo = self.m.magnitude() - &self.r; // > 0
        let hi = self.m.magnitude() + &self.r;
        let k = w + 8 + hi.bits();
        let one = BigUint::one() << k;
        let qlo = &one / &hi; // floor(2^k / hi)  <= 1/hi · 2^k
        let qhi = (&one + &lo - 1u8) / &lo; // ceil(2^k / lo)
        let mid = (&qlo + &qhi) >> 1u8;
        let rad = ((&qhi - &qlo) >> 1u8) + 1u8;
        let m = if self.m.is_negative() { -BigInt::from(mid) } else { BigInt::from(mid) };
        Some(Ball { m, r: rad, e: -(k as i64) - self.e }.norm(w))
    }
    pub fn div(&self, o: &Ball, w: u64) -> Option<Ball> {
        Some(self.mul(&o.inv(w)?, w))
    }

    /// n/d · base^e as a ball of about w bits
    pub fn from_sci(x: &Sci, w: u64) -> Ball {
        let mut b = Ball::from_int(&x.n);
        if !x.d.is_one() {
            b = b.mul(&Ball::from_int(&BigInt::from(x.d.clone())).inv(w + 8).unwrap(), w + 8);
        }
        if x.e != 0 {
            let pw = Ball::pow_int(x.base, x.e.unsigned_abs(), w + 8);
            b = if x.e > 0 { b.mul(&pw, w + 8) } else { b.mul(&pw.inv(w + 8).unwrap(), w + 8) };
        }
        b.norm(w)
    }
    /// base^k (k >= 0), exact when small, otherwise rounded ball
    pub fn pow_int(base: u64, k: u64, w: u64) -> Ball {
        if base.is_power_of_two() {
            return Ball::exact(BigInt::one(), (base.trailing_zeros() as u64 * k) as i64);
        }
        // exact if the result has at most ~4w bits, else binary powering on balls
        let est_bits = (k as f64 * (base as f64).log2()) as u64;
        if est_bits <= 4 * w + 256 {
            return Ball::from_int(&BigInt::from(Pow::pow(BigUint::from(base), k)));
        }
        let mut result = Ball::one();
        let mut sq = Ball::from_u64(base);
        let mut kk = k;
        while kk > 0 {
            if kk & 1 == 1 {
                result = result.mul(&sq, w + 16);
            }
            kk >>= 1;
            if kk > 0 {
                sq = sq.sqr(w + 16);
            }
        }
        result
    }

    /// lower / upper endpoints as exact dyadic numbers (n, e): value n·2^e
    pub fn lo(&self) -> (BigInt, i64) {
        (&self.m - BigInt::from(self.r.clone()), self.e)
    }
    pub fn hi(&self) -> (BigInt, i64) {
        (&self.m + BigInt::from(self.r.clone()), self.e)
    }

    /// log2 of the relative radius (roughly); large negative = tight
    pub fn rel_accuracy_bits(&self) -> i64 {
        if self.r.is_zero() {
            return i64::MAX;
        }
        if self.m.is_zero() {
            return 0;
        }
        bits_i(&self.m) - self.r.bits() as i64
    }

    pub fn to_f64(&self) -> f64 {
        if self.m.is_zero() {
            return 0.0;
        }
        let b = self.m.bits() as i64;
        let sh = (b - 60).max(0);
        let top = (&self.m >> sh as u64).to_f64().unwrap_or(0.0);
        top * 2f64.powi((self.e + sh).clamp(-100000, 100000) as i32)
    }
}

/// Compare the dyadic number n·2^e with the rational q (exactly).
pub fn cmp_dyadic_sci(n: &BigInt, e: i64, q: &Sci) -> Ordering {
    // n·2^e  ?  qn/qd · B^k
    let sn = match n.sign() {
        Sign::Minus => -1,
        Sign::NoSign => 0,
        Sign::Plus => 1,
    };
    let sq = q.signum();
    if sn != sq {
        return sn.cmp(&sq);
    }
    if sn == 0 {
        return Ordering::Equal;
    }
    let mut l = n * BigInt::from(q.d.clone());
    let mut r = q.n.clone();
    if e >= 0 {
        l <<= e as u64;
    } else {
        r <<= (-e) as u64;
    }
    let pb = BigInt::from(Pow::pow(BigUint::from(q.base), q.e.unsigned_abs()));
    if q.e >= 0 {
        r *= pb;
    } else {
        l *= pb;
    }
    l.cmp(&r)
}

// ---------------------------------------------------------------------------------------------
// elementary functions

/// exp(x) for a ball with |x| <= 2^-4 (enforced by the caller), Taylor with explicit tail.
fn exp_small(x: &Ball, w: u64) -> Ball {
    // number of terms: |x|^n / n! < 2^-(w+8)
    let xb = {
        // |x| < 2^(bits + e)
        let ub = x.m.magnitude() + &x.r;
        ub.bits() as i64 + x.e
    }; // |x| < 2^xb, xb <= -3
    debug_assert!(xb <= -3);
    let mut n = 1u64;
    {
        let mut acc: f64 = 0.0; // log2(|x|^n / n!) upper bound
        while {
            acc += xb as f64 - (n as f64).log2();
            acc > -(w as f64 + 10.0)
        } {
            n += 1;
        }
    }
    // sum_{k=0}^{n} x^k / k!
    let ww = w + 16;
    let mut term = Ball::one();
    let mut sum = Ball::one();
    for k in 1..=n {
        term = term.mul(x, ww).div_u64(k, ww);
        sum = sum.add(&term, ww);
    }
    // tail: |R| <= 2·|x|^(n+1)/(n+1)!  for |x| <= 1/2  (geometric majorant with ratio <= 1/2)
    let next = term.mul(x, ww).div_u64(n + 1, ww);
    let tail_ub = (next.m.magnitude() + &next.r) << 1u8;
    let tail = Ball { m: BigInt::zero(), r: tail_ub + 1u8, e: next.e };
    sum.add(&tail, ww).norm(w)
}

/// exp(x)
pub fn exp(x: &Ball, w: u64) -> Ball {
    if x.m.is_zero() && x.r.is_zero() {
        return Ball::one();
    }
    // work with a non-negative-midpoint argument and invert at the end: precision stays relative
    if x.m.is_negative() {
        return exp(&x.neg(), w + 4).inv(w + 4).expect("exp ball is positive").norm(w);
    }
    let ub = x.m.magnitude() + &x.r;
    let xb = ub.bits() as i64 + x.e; // |x| < 2^xb
    let j = (xb + 4).max(0) as u64; // halvings so that |x/2^j| < 2^-4
    let ww = w + 2 * j + 24;
    let y = x.mul_pow2(-(j as i64));
    let mut r = exp_small(&y, ww);
    for _ in 0..j {
        r = r.sqr(ww);
    }
    r.norm(w)
}

/// ln(1+x) by the alternating series, for a ball with |x| <= 2^-8
fn ln1p_small(x: &Ball, w: u64) -> Ball {
    let ub = x.m.magnitude() + &x.r;
    if ub.is_zero() {
        return Ball::zero();
    }
    let xb = ub.bits() as i64 + x.e; // |x| < 2^xb, xb <= -7
    debug_assert!(xb <= -7);
    // relative accuracy w: need |x|^n <= 2^-(w+8)
    let n = ((w as i64 + 12) / (-xb) + 2) as u64;
    let ww = w + 24;
    let mut pw = x.clone();
    let mut sum = x.clone();
    for k in 2..=n {
        pw = pw.mul(x, ww);
        let t = pw.div_u64(k, ww);
        sum = if k % 2 == 0 { sum.sub(&t, ww) } else { sum.add(&t, ww) };
    }
    // tail: |sum_{k>n} x^k/k| <= |x|^(n+1) / (1 - |x|) <= 2 |x|^(n+1)
    let next = pw.mul(x, ww);
    let tail_ub = (next.m.magnitude() + &next.r) << 1u8;
    let tail = Ball { m: BigInt::zero(), r: tail_ub + 1u8, e: next.e };
    sum.add(&tail, ww).norm(w)
}

/// ln(x) for a strictly positive ball; None if the ball is not strictly positive.
pub fn ln(x: &Ball, w: u64) -> Option<Ball> {
    if !x.is_positive() {
        return None;
    }
    let ww = w + 32;
    // starting point from f64: x = m·2^e
    let mb = x.m.bits() as i64;
    let top = (&x.m >> ((mb - 60).max(0) as u64)).to_f64().unwrap();
    let approx = top.ln() + ((x.e + (mb - 60).max(0)) as f64) * std::f64::consts::LN_2;
    // exact dyadic starting value
    let mut y = f64_to_ball(approx);
    // refine: y <- y + t with t = x/exp(y) - 1 ; |ln(1+t) - t| <= t^2 for |t| <= 1/2
    let mut last: Option<Ball> = None;
    for _ in 0..12 {
        let ey = exp(&y, ww);
        let t = x.div(&ey, ww)?.sub(&Ball::one(), ww);
        let t_ub = t.m.magnitude() + &t.r; // |t| <= t_ub·2^t.e
        let t_bits = t_ub.bits() as i64 + t.e; // |t| < 2^t_bits
        if t_bits > -1 {
            // starting point too far off (should not happen): take a plain Newton step and retry
            y = y.add(&t, ww);
            y = Ball::exact(y.m, y.e); // forget radius: y is only an approximation here
            continue;
        }
        // enclosure: y + t ± t^2
        let t2 = (&t_ub * &t_ub) + 1u8;
        let err = Ball { m: BigInt::zero(), r: t2, e: 2 * t.e };
        let enc = y.add(&t, ww).add(&err, ww);
        // good enough once t^2 is below the target accuracy relative to the value
        let val_bits = {
            let v = enc.m.magnitude().bits() as i64 + enc.e;
            v
        };
        last = Some(enc.clone());
        if 2 * t_bits <= val_bits - w as i64 - 8 || enc.m.is_zero() {
            // when ln x is ~0 (x ~ 1) relative accuracy needs t itself to be resolved; handled by the
            // caller through ln_1p for arguments next to 1. Here absolute 2^-(w+8) accuracy as fallback.
            if enc.m.is_zero() && 2 * t_bits > -(w as i64) - 16 {
                // continue iterating to at least absolute accuracy
            } else {
                break;
            }
        }
        // next starting point: midpoint of the enclosure as an exact number
        y = Ball::exact(enc.m.clone(), enc.e).norm(ww);
        y = Ball::exact(y.m, y.e);
    }
    last.map(|b| b.norm(w + 8))
}

fn f64_to_ball(v: f64) -> Ball {
    if v == 0.0 || !v.is_finite() {
        return Ball::zero();
    }
    let bits = v.to_bits();
    let neg = bits >> 63 == 1;
    let exp = ((bits >> 52) & 0x7ff) as i64;
    let frac = bits & ((1u64 << 52) - 1);
    let (m, e) = if exp == 0 { (frac, -1074) } else { (frac | (1u64 << 52), exp - 1075) };
    let m = BigInt::from(m);
    Ball::exact(if neg { -m } else { m }, e)
}

/// ln(1+x) for a ball with 1+x > 0
pub fn ln_1p(x: &Ball, w: u64) -> Option<Ball> {
    let ub = x.m.magnitude() + &x.r;
    if ub.is_zero() {
        return Some(Ball::zero());
    }
    let xb = ub.bits() as i64 + x.e;
    if xb <= -7 {
        return Some(ln1p_small(x, w));
    }
    // 1 + x is computed with enough bits that nothing is lost (|x| >= 2^-8)
    let s = Ball::one().add(x, w + 16);
    ln(&s, w)
}

/// exp(x) - 1
pub fn exp_m1(x: &Ball, w: u64) -> Ball {
    let ub = x.m.magnitude() + &x.r;
    if ub.is_zero() {
        return Ball::zero();
    }
    let xb = ub.bits() as i64 + x.e;
    if xb <= -3 {
        // Taylor without the constant term: sum_{k>=1} x^k/k!, relative accuracy w
        let n = {
            let mut n = 1u64;
            let mut acc: f64 = 0.0;
            // terms relative to |x|: |x|^(k-1)/k!
            while {
                acc += if n == 1 { 0.0 } else { xb as f64 } - (n as f64).log2();
                acc > -(w as f64 + 12.0)
            } {
                n += 1;
            }
            n.max(2)
        };
        let ww = w + 24;
        let mut term = x.clone();
        let mut sum = x.clone();
        for k in 2..=n {
            term = term.mul(x, ww).div_u64(k, ww);
            sum = sum.add(&term, ww);
        }
        let next = term.mul(x, ww).div_u64(n + 1, ww);
        let tail_ub = (next.m.magnitude() + &next.r) << 1u8;
        let tail = Ball { m: BigInt::zero(), r: tail_ub + 1u8, e: next.e };
        return sum.add(&tail, ww).norm(w);
    }
    // |x| >= 2^-4: at most ~5 bits cancel
    exp(x, w + 16).sub(&Ball::one(), w + 16).norm(w)
}

/// ln 2
pub fn ln2(w: u64) -> Ball {
    ln(&Ball::from_u64(2), w).unwrap()
}

/// log2(x) for a strictly positive ball
pub fn log2(x: &Ball, w: u64) -> Option<Ball> {
    let l = ln(x, w + 8)?;
    l.div(&ln2(w + 8), w + 8).map(|b| b.norm(w))
}

/// b^e = exp(e · ln b), b > 0
pub fn powf(b: &Ball, e: &Ball, w: u64) -> Option<Ball> {
    // relative accuracy of exp(y) is the absolute accuracy of y: add the magnitude of y in bits
    let lb = ln(b, w + 8)?;
    let y0 = e.mul(&lb, w + 8);
    let ybits = ((y0.m.magnitude() + &y0.r).bits() as i64 + y0.e).max(0) as u64;
    let ww = w + ybits + 16;
    let lb = ln(b, ww)?;
    let y = e.mul(&lb, ww);
    Some(exp(&y, ww).norm(w))
}

/// b^n for integer n (binary powering on balls)
pub fn powi(b: &Ball, n: i64, w: u64) -> Option<Ball> {
    let steps = 64 - n.unsigned_abs().leading_zeros() as u64;
    let ww = w + 2 * steps + 16;
    let mut result = Ball::one();
    let mut sq = b.clone();
    let mut k = n.unsigned_abs();
    while k > 0 {
        if k & 1 == 1 {
            result = result.mul(&sq, ww);
        }
        k >>= 1;
        if k > 0 {
            sq = sq.sqr(ww);
        }
    }
    if n < 0 {
        result = result.inv(ww)?;
    }
    Some(result.norm(w))
}

// ---------------------------------------------------------------------------------------------
// verdicts against an enclosure

#[derive(Debug, Clone, PartialEq, Eq)]
pub enum Tri {
    Yes,
    No,
    Unknown,
}

/// position of the rational r relative to every point of the enclosure
#[derive(Debug, Clone, Copy, PartialEq, Eq)]
pub enum Side {
    Below,   // r < x for all x in the ball
    Above,   // r > x for all x in the ball
    Inside,  // undecided
}

pub fn side(enc: &Ball, r: &Sci) -> Side {
    let (lo, le) = enc.lo();
    let (hi, he) = enc.hi();
    if cmp_dyadic_sci(&lo, le, r) == Ordering::Greater {
        Side::Below
    } else if cmp_dyadic_sci(&hi, he, r) == Ordering::Less {
        Side::Above
    } else {
        Side::Inside
    }
}

/// floor(log_B |x|) for the two endpoints of an enclosure not containing zero: (min, max)
pub fn floor_log_range(enc: &Ball, base: u64) -> Option<(i64, i64)> {
    if enc.contains_zero() || enc.e.abs() > (1 << 22) {
        return None;
    }
    let (lo, le) = enc.lo();
    let (hi, he) = enc.hi();
    let f = |n: &BigInt, e: i64| -> i64 {
        let s = Sci { n: n.abs(), d: BigUint::one(), e: 0, base };
        // |n|·2^e: floor_log via Sci needs a base-B exponent; fold 2^e into n or d
        let s = if e >= 0 { Sci { n: &s.n << e as u64, d: s.d, e: 0, base } } else { Sci { n: s.n, d: BigUint::one() << (-e) as u64, e: 0, base } };
        s.floor_log()
    };
    let a = f(&lo, le);
    let b = f(&hi, he);
    Some((a.min(b), a.max(b)))
}

/// Is |x - r| < ulp·num/den for all x in enc (Yes), for none (No), or undecided?
/// ulp = base^(e - p + 1) with e = floor(log_B |x|) taken conservatively over the enclosure.
pub fn within_ulps(enc: &Ball, r: &Sci, p: u64, num: u64, den: u64) -> Tri {
    let base = r.base;
    let (emin, emax) = match floor_log_range(enc, base) {
        Some(v) => v,
        None => return Tri::Unknown,
    };
    let (lo, le) = enc.lo();
    let (hi, he) = enc.hi();
    // bound_small = ulp(emin)·num/den, bound_large = ulp(emax)·num/den
    let mk = |e: i64| Sci { n: BigInt::from(num), d: BigUint::from(den), e: e - p as i64 + 1, base };
    let small = mk(emin);
    let large = mk(emax);
    // Yes: r - small < lo  and hi < r + small
    let r_lo_s = r.sub(&small);
    let r_hi_s = r.add(&small);
    if cmp_dyadic_sci(&lo, le, &r_lo_s) == Ordering::Greater && cmp_dyadic_sci(&hi, he, &r_hi_s) == Ordering::Less {
        return Tri::Yes;
    }
    // No: the whole enclosure is at least `large` away from r
    let r_lo_l = r.sub(&large);
    let r_hi_l = r.add(&large);
    if cmp_dyadic_sci(&hi, he, &r_lo_l) != Ordering::Greater || cmp_dyadic_sci(&lo, le, &r_hi_l) != Ordering::Less {
        return Tri::No;
    }
    Tri::Unknown
}

/// Is |x - r| < base^k · num/den for all x in enc (Yes), for none (No), or undecided?
pub fn within_abs(enc: &Ball, r: &Sci, k: i64, num: u64, den: u64) -> Tri {
    let base = r.base;
    let (lo, le) = enc.lo();
    let (hi, he) = enc.hi();
    let bound = Sci { n: BigInt::from(num), d: BigUint::from(den), e: k, base };
    let r_lo = r.sub(&bound);
    let r_hi = r.add(&bound);
    if cmp_dyadic_sci(&lo, le, &r_lo) == Ordering::Greater && cmp_dyadic_sci(&hi, he, &r_hi) == Ordering::Less {
        return Tri::Yes;
    }
    if cmp_dyadic_sci(&hi, he, &r_lo) != Ordering::Greater || cmp_dyadic_sci(&lo, le, &r_hi) != Ordering::Less {
        return Tri::No;
    }
    Tri::Unknown
}

/// distance |x - r| in ulps as a rough f64 (for reporting / classification only, never a verdict)
pub fn err_ulps_f64(enc: &Ball, r: &Sci, p: u64) -> f64 {
    let base = r.base;
    let (emin, _) = match floor_log_range(enc, base) {
        Some(v) => v,
        None => return f64::NAN,
    };
    let w = 128;
    let rb = Ball::from_sci(r, w);
    let d = Ball::exact(enc.m.clone(), enc.e).sub(&rb, w);
    let ulp = Ball::from_sci(&Sci::unit(base, emin - p as i64 + 1), w);
    match d.div(&ulp, w) {
        Some(q) => q.to_f64().abs(),
        None => f64::NAN,
    }
}
