//! see `NbInt`
use num_bigint::{BigInt, BigUint};

/// num-integer's methods for the num-bigint types only.  `num_integer::Integer` is also implemented
/// by dashu's integers when dashu-int's `num-integer` feature is on (the checks turn it on to test
/// those implementations); importing the trait itself would make every `.div_rem()` / `.gcd()` on a
/// dashu value ambiguous with the dashu-base traits.
pub trait NbInt: Sized {
    fn div_rem(&self, other: &Self) -> (Self, Self);
    fn div_floor(&self, other: &Self) -> Self;
    fn mod_floor(&self, other: &Self) -> Self;
    fn div_mod_floor(&self, other: &Self) -> (Self, Self);
    fn gcd(&self, other: &Self) -> Self;
    fn lcm(&self, other: &Self) -> Self;
    fn is_multiple_of(&self, other: &Self) -> bool;
    fn is_even(&self) -> bool;
    fn is_odd(&self) -> bool;
}
macro_rules! nbint {
    ($t:ty) => {
        impl NbInt for $t {
            fn div_rem(&self, other: &Self) -> (Self, Self) {
                num_integer::Integer::div_rem(self, other)
            }
            fn div_floor(&self, other: &Self) -> Self {
                num_integer::Integer::div_floor(self, other)
            }
            fn mod_floor(&self, other: &Self) -> Self {
                num_integer::Integer::mod_floor(self, other)
            }
            fn div_mod_floor(&self, other: &Self) -> (Self, Self) {
                num_integer::Integer::div_mod_floor(self, other)
            }
            fn gcd(&self, other: &Self) -> Self {
                num_integer::Integer::gcd(self, other)
            }
            fn lcm(&self, other: &Self) -> Self {
                num_integer::Integer::lcm(self, other)
            }
            fn is_multiple_of(&self, other: &Self) -> bool {
                num_integer::Integer::is_multiple_of(self, other)
            }
            fn is_even(&self) -> bool {
                num_integer::Integer::is_even(self)
            }
            fn is_odd(&self) -> bool {
                num_integer::Integer::is_odd(self)
            }
        }
    };
}
nbint!(BigInt);
nbint!(BigUint);
