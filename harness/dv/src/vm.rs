//! Operation-history interpreter over a small pool of live integers with a num-bigint model
//! alongside (C17; shared by the proptest check, the libFuzzer target and the Miri runner).
//!
//! After every step every slot is checked: value == model (through raw words) and, with the
//! `dashu_verif` hook, the storage invariants documented on `Repr`.

use crate::bridge::{i2n, Nat};
use dashu_base::{CubicRootRem, DivRem, DivRemEuclid, ExtendedGcd, Gcd, Sign, SquareRoot, SquareRootRem, UnsignedAbs};
use dashu_int::fast_div::ConstDivisor;
use dashu_int::{IBig, UBig, Word};
use num_bigint::{BigInt, BigUint, Sign as NSign};
use num_integer::Integer;
use num_traits::{One, Signed, Zero};
use serde::{Deserialize, Serialize};

pub const POOL: usize = 4;
pub const NKINDS: u8 = 28;
/// values are kept below this many words (decided from the model)
pub const MAXW: u64 = 300;

#[derive(Clone, Debug, Hash, PartialEq, Eq, Serialize, Deserialize)]
pub struct Op {
    pub k: u8,
    pub a: u8,
    pub b: u8,
    pub d: u8,
    pub form: u8,
    pub n: u32,
    pub neg: bool,
    pub v: Nat,
}

#[derive(Default, Debug, Clone)]
pub struct Report {
    pub steps: usize,
    pub skipped: usize,
    pub inline_to_heap: u32,
    pub heap_to_inline: u32,
    pub clone_from: u32,
    pub clone_from_onto_heap: u32,
    pub self_ops: u32,
    pub reallocs_seen: u32,
    pub max_words: usize,
    pub static_reads: u32,
}

static S1: [Word; 1] = [0x1234_5678_9abc_def1];
static S2: [Word; 2] = [Word::MAX, 7];
static S3: [Word; 3] = [0, 0, 1];
static S5: [Word; 5] = [Word::MAX, 0, Word::MAX, 0x8000_0000_0000_0000, 0xffff];

fn big_of_words(w: &[Word]) -> BigInt {
    BigInt::from(crate::bridge::words_to_big(w))
}

fn to_model(neg: bool, v: &Nat) -> BigInt {
    let m = BigInt::from(v.big());
    if neg {
        -m
    } else {
        m
    }
}

fn words_of(m: &BigInt) -> u64 {
    (m.bits() + 63) / 64
}

/// storage invariants of one value, through the hook
#[cfg(dashu_verif)]
pub fn check_repr(x: &IBig) -> Result<(bool, usize), String> {
    let (cap, len, inline, words) = x.__verif_repr();
    let acap = cap.unsigned_abs();
    if cap == 0 {
        return Err("capacity field is zero".into());
    }
    if inline {
        if acap > 2 {
            return Err(format!("inline flag with |capacity| = {acap}"));
        }
        let (lo, hi) = (words[0], words[1]);
        if acap == 1 && hi != 0 {
            return Err(format!("|capacity| = 1 but the inline high word is {hi:#x}"));
        }
        if acap == 2 && hi == 0 {
            return Err("|capacity| = 2 but the inline high word is zero (leading zero word)".into());
        }
        if lo == 0 && hi == 0 && cap < 0 {
            return Err("zero is stored with a negative sign".into());
        }
        Ok((true, len))
    } else {
        if acap < 3 {
            return Err(format!("heap value with |capacity| = {acap}"));
        }
        if len < 3 {
            return Err(format!("heap buffer holds only {len} words (values of at most two words must be inline)"));
        }
        if words.len() != len {
            return Err("hook returned inconsistent length".into());
        }
        if words[len - 1] == 0 {
            return Err("heap buffer has a leading zero word".into());
        }
        if len > acap {
            return Err(format!("length {len} exceeds capacity {acap}"));
        }
        let max_compact = len + len / 4 + 4;
        if acap > max_compact {
            return Err(format!("capacity {acap} exceeds the compactness bound {max_compact} for length {len}"));
        }
        Ok((false, len))
    }
}

#[cfg(not(dashu_verif))]
pub fn check_repr(x: &IBig) -> Result<(bool, usize), String> {
    let (_, w) = x.as_sign_words();
    Ok((w.len() <= 2, w.len()))
}

fn ibig(neg: bool, mag: UBig) -> IBig {
    IBig::from_parts(if neg { Sign::Negative } else { Sign::Positive }, mag)
}

/// Run a history. `Err` describes the first violated invariant (step index, slot, detail).
pub fn run(init: &[(bool, Nat)], ops: &[Op]) -> Result<Report, String> {
    let mut rep = Report::default();
    let mut pool: Vec<IBig> = Vec::with_capacity(POOL);
    let mut model: Vec<BigInt> = Vec::with_capacity(POOL);
    for i in 0..POOL {
        let (neg, v) = init.get(i).cloned().unwrap_or((false, Nat(vec![])));
        let v = if v.0.len() as u64 > MAXW { Nat(v.0[..MAXW as usize].to_vec()) } else { v };
        pool.push(ibig(neg && !v.is_zero(), UBig::from_words(&v.0)));
        model.push(to_model(neg, &v));
    }
    let mut was_inline = [true; POOL];
    for (i, x) in pool.iter().enumerate() {
        let (inl, _) = check_repr(x).map_err(|e| format!("initial slot {i}: {e}"))?;
        was_inline[i] = inl;
    }
    let statics: [&'static [Word]; 4] = [&S1, &S2, &S3, &S5];

    for (step, op) in ops.iter().enumerate() {
        let a = op.a as usize % POOL;
        let mut b = op.b as usize % POOL;
        let mut d = op.d as usize % POOL;
        let n = op.n as usize;
        let form = op.form;
        rep.steps += 1;
        let mut skipped = false;
        match op.k % NKINDS {
            0 => {
                let v = cap_nat(&op.v);
                model[d] = to_model(op.neg, &v);
                pool[d] = ibig(op.neg && !v.is_zero(), UBig::from_words(&v.0));
            }
            1 => {
                let v = cap_nat(&op.v);
                let m = to_model(op.neg, &v);
                if form % 2 == 0 {
                    let bytes = m.magnitude().to_bytes_le();
                    pool[d] = IBig::from(UBig::from_le_bytes(&bytes));
                    model[d] = m.abs();
                } else {
                    let bytes = m.to_signed_bytes_be();
                    pool[d] = IBig::from_be_bytes(&bytes);
                    model[d] = m;
                }
            }
            2 => {
                let lo = op.v.0.first().copied().unwrap_or(0) as u128 | ((op.v.0.get(1).copied().unwrap_or(0) as u128) << 64);
                match form % 5 {
                    0 => {
                        pool[d] = IBig::from(lo);
                        model[d] = BigInt::from(lo);
                    }
                    1 => {
                        pool[d] = IBig::from(lo as i128);
                        model[d] = BigInt::from(lo as i128);
                    }
                    2 => {
                        pool[d] = IBig::from(lo as u64);
                        model[d] = BigInt::from(lo as u64);
                    }
                    3 => {
                        pool[d] = IBig::from(lo as i64);
                        model[d] = BigInt::from(lo as i64);
                    }
                    _ => {
                        pool[d] = IBig::from(lo as i8);
                        model[d] = BigInt::from(lo as i8);
                    }
                }
            }
            3 => {
                let k = n % 330;
                pool[d] = IBig::from(UBig::ones(k));
                model[d] = (BigInt::one() << k) - 1;
            }
            4 => {
                let v = cap_nat(&op.v);
                let s = format!("{}{}", if op.neg { "-" } else { "" }, v.to_hex());
                pool[d] = IBig::from_str_radix(&s, 16).map_err(|e| format!("step {step}: parse of own hex text failed: {e:?}"))?;
                model[d] = to_model(op.neg, &v);
            }
            k @ 5..=12 => {
                // binary operators in several ownership forms
                let (ma, mb) = (model[a].clone(), model[b].clone());
                let want: Option<BigInt> = match k {
                    5 => Some(&ma + &mb),
                    6 => Some(&ma - &mb),
                    7 => Some(&ma * &mb),
                    8 => {
                        if mb.is_zero() {
                            None
                        } else {
                            Some(ma.div_rem(&mb).0)
                        }
                    }
                    9 => {
                        if mb.is_zero() {
                            None
                        } else {
                            Some(ma.div_rem(&mb).1)
                        }
                    }
                    10 => Some(&ma & &mb),
                    11 => Some(&ma | &mb),
                    _ => Some(&ma ^ &mb),
                };
                match want {
                    Some(w) if words_of(&w) <= MAXW => {
                        macro_rules! bin {
                            ($op:tt, $opa:tt) => {{
                                match form % 6 {
                                    0 => { let r = &pool[a] $op &pool[b]; pool[d] = r; model[d] = w; }
                                    1 => { let r = pool[a].clone() $op pool[b].clone(); pool[d] = r; model[d] = w; }
                                    2 => { let rhs = pool[b].clone(); let tmp = &rhs; pool[a] $opa tmp; model[a] = w; }
                                    3 => { let rhs = pool[b].clone(); pool[a] $opa rhs; model[a] = w; }
                                    4 => { let r = pool[a].clone() $op &pool[b]; pool[d] = r; model[d] = w; }
                                    _ => { let r = &pool[a] $op pool[b].clone(); pool[d] = r; model[d] = w; }
                                }
                            }};
                        }
                        match k {
                            5 => bin!(+, +=),
                            6 => bin!(-, -=),
                            7 => bin!(*, *=),
                            8 => bin!(/, /=),
                            9 => bin!(%, %=),
                            10 => bin!(&, &=),
                            11 => bin!(|, |=),
                            _ => bin!(^, ^=),
                        }
                    }
                    _ => skipped = true,
                }
            }
            13 => {
                rep.self_ops += 1;
                let m = model[a].clone();
                match form % 6 {
                    0 => {
                        let c = pool[a].clone();
                        pool[a] += &c;
                        model[a] = &m + &m;
                    }
                    1 => {
                        if words_of(&m) * 2 <= MAXW {
                            let c = pool[a].clone();
                            pool[a] *= c;
                            model[a] = &m * &m;
                        } else {
                            skipped = true;
                        }
                    }
                    2 => {
                        let c = pool[a].clone();
                        pool[a] -= &c;
                        model[a] = BigInt::zero();
                    }
                    3 => {
                        if words_of(&m) * 2 <= MAXW {
                            let r = &pool[a] * &pool[a];
                            pool[a] = r;
                            model[a] = &m * &m;
                        } else {
                            skipped = true;
                        }
                    }
                    4 => {
                        let c = pool[a].clone();
                        pool[a] ^= c;
                        model[a] = BigInt::zero();
                    }
                    _ => {
                        let c = pool[a].clone();
                        pool[a] &= &c;
                    }
                }
            }
            14 => {
                let sh = n % 9000;
                if model[a].bits() + sh as u64 <= MAXW * 64 {
                    let w = &model[a] << sh;
                    match form % 3 {
                        0 => {
                            let r = &pool[a] << sh;
                            pool[d] = r;
                            model[d] = w;
                        }
                        1 => {
                            pool[a] <<= sh;
                            model[a] = w;
                        }
                        _ => {
                            let r = pool[a].clone() << sh;
                            pool[d] = r;
                            model[d] = w;
                        }
                    }
                } else {
                    skipped = true;
                }
            }
            15 => {
                let sh = n % 20000;
                let w = &model[a] >> sh; // floor
                match form % 3 {
                    0 => {
                        let r = &pool[a] >> sh;
                        pool[d] = r;
                        model[d] = w;
                    }
                    1 => {
                        pool[a] >>= sh;
                        model[a] = w;
                    }
                    _ => {
                        let r = pool[a].clone() >> sh;
                        pool[d] = r;
                        model[d] = w;
                    }
                }
            }
            16 => {
                // set / clear a bit of the magnitude
                let bit = n % (MAXW as usize * 64);
                let neg = model[a].is_negative();
                let (_, mut mag) = std::mem::take(&mut pool[a]).into_parts();
                let mut mm = model[a].magnitude().clone();
                if form % 2 == 0 {
                    mag.set_bit(bit);
                    mm.set_bit(bit as u64, true);
                } else {
                    mag.clear_bit(bit);
                    mm.set_bit(bit as u64, false);
                }
                let nz = !mm.is_zero();
                pool[a] = ibig(neg && nz, mag);
                model[a] = if neg { -BigInt::from(mm) } else { BigInt::from(mm) };
            }
            17 => {
                let m = model[a].clone();
                match form % 7 {
                    0 => {
                        pool[d] = -pool[a].clone();
                        model[d] = -m;
                    }
                    1 => {
                        pool[d] = -&pool[a];
                        model[d] = -m;
                    }
                    2 => {
                        pool[d] = IBig::from(pool[a].clone().unsigned_abs());
                        model[d] = m.abs();
                    }
                    3 => {
                        if words_of(&m) * 2 <= MAXW {
                            pool[d] = IBig::from(pool[a].sqr());
                            model[d] = &m * &m;
                        } else {
                            skipped = true;
                        }
                    }
                    4 => {
                        pool[d] = !&pool[a];
                        model[d] = !m;
                    }
                    5 => {
                        let u = (&pool[a]).unsigned_abs();
                        pool[d] = IBig::from(u.sqrt());
                        model[d] = BigInt::from(m.magnitude().sqrt());
                    }
                    _ => {
                        let e = n % 5;
                        if words_of(&m) * e as u64 <= MAXW {
                            pool[d] = pool[a].pow(e);
                            model[d] = num_traits::Pow::pow(&m, e as u32);
                        } else {
                            skipped = true;
                        }
                    }
                }
            }
            18 => {
                pool[d] = pool[a].clone();
                model[d] = model[a].clone();
            }
            19 => {
                if d == a {
                    d = (a + 1) % POOL;
                }
                rep.clone_from += 1;
                if !was_inline[d] {
                    rep.clone_from_onto_heap += 1;
                }
                let src = pool[a].clone();
                let _ = src; // keep a second live copy around while cloning in place
                let (x, y) = borrow_two(&mut pool, d, a);
                x.clone_from(y);
                model[d] = model[a].clone();
            }
            20 => {
                let t = std::mem::take(&mut pool[a]);
                let mt = std::mem::take(&mut model[a]);
                if form % 2 == 0 {
                    drop(t);
                } else if d != a {
                    pool[d] = t;
                    model[d] = mt;
                }
            }
            21 => {
                // shrink: keep only the low k words of the magnitude
                let k = n % 6;
                let neg = model[a].is_negative();
                let (_, mut mag) = std::mem::take(&mut pool[a]).into_parts();
                mag.clear_high_bits(64 * k);
                let mm = model[a].magnitude() & ((BigUint::one() << (64 * k)) - 1u8);
                let nz = !mm.is_zero();
                pool[a] = ibig(neg && nz, mag);
                model[a] = if neg { -BigInt::from(mm) } else { BigInt::from(mm) };
            }
            22 => {
                // grow: a = (a << 64k) | v
                let k = n % 120;
                let v = cap_nat(&op.v);
                if model[a].bits() + 64 * k as u64 <= MAXW * 64 && !model[a].is_negative() {
                    let add = IBig::from(UBig::from_words(&v.0));
                    pool[a] <<= 64 * k;
                    pool[a] |= add;
                    model[a] = (&model[a] << (64 * k)) | BigInt::from(v.big());
                } else {
                    skipped = true;
                }
            }
            23 => {
                let m = model[a].clone();
                match form % 6 {
                    0 => {
                        let bytes = pool[a].to_le_bytes();
                        pool[d] = IBig::from_le_bytes(&bytes);
                    }
                    1 => {
                        let bytes = pool[a].to_be_bytes();
                        pool[d] = IBig::from_be_bytes(&bytes);
                    }
                    2 => {
                        let (s, w) = pool[a].as_sign_words();
                        let w = w.to_vec();
                        pool[d] = IBig::from_parts(s, UBig::from_words(&w));
                    }
                    3 => {
                        let k = 1 + n % 200;
                        let u = (&pool[a]).unsigned_abs();
                        let chunks = u.to_chunks(k);
                        let back = UBig::from_chunks(chunks.iter(), k);
                        pool[d] = ibig(m.is_negative(), back);
                    }
                    4 => {
                        let (s, u) = pool[a].clone().into_parts();
                        pool[d] = IBig::from_parts(s, u);
                    }
                    _ => {
                        let r = 2 + (n % 35) as u32;
                        let s = pool[a].in_radix(r).to_string();
                        pool[d] = IBig::from_str_radix(&s, r).map_err(|e| format!("step {step}: own text does not parse: {e:?}"))?;
                    }
                }
                model[d] = m;
            }
            24 => {
                // modular ring over |b|: ConstDivisor owns a boxed word slice, Reduced values own buffers
                let m = model[b].magnitude().clone();
                if m.is_zero() {
                    skipped = true;
                } else {
                    let mm = BigInt::from(m.clone());
                    let ring = ConstDivisor::new((&pool[b]).unsigned_abs());
                    let r0 = model[a].mod_floor(&mm);
                    let want: BigInt;
                    let got: UBig;
                    match form % 7 {
                        0 => {
                            got = ring.reduce(pool[a].clone()).residue();
                            want = r0;
                        }
                        1 => {
                            let x = ring.reduce(pool[a].clone());
                            got = (&x * &x).residue();
                            want = (&r0 * &r0).mod_floor(&mm);
                        }
                        2 => {
                            let x = ring.reduce((&pool[a]).unsigned_abs());
                            let ra = BigInt::from(model[a].magnitude().clone()).mod_floor(&mm);
                            let e = (n % 70) as u32;
                            got = x.pow(&UBig::from(e)).residue();
                            want = ra.modpow(&BigInt::from(e), &mm);
                        }
                        3 => {
                            let x = ring.reduce(pool[a].clone());
                            let y = ring.reduce(pool[d].clone());
                            let mut z = x.clone();
                            z += &y;
                            z -= x;
                            z *= y.clone();
                            got = z.residue();
                            let rd = model[d].mod_floor(&mm);
                            want = (&rd * &rd).mod_floor(&mm);
                        }
                        4 => {
                            let x = ring.reduce(pool[a].clone());
                            match x.inv() {
                                Some(y) => {
                                    got = (y * ring.reduce(pool[a].clone())).residue();
                                    want = BigInt::one().mod_floor(&mm);
                                }
                                None => {
                                    if r0.gcd(&mm).is_one() {
                                        return Err(format!("step {step}: Reduced::inv = None for an invertible element"));
                                    }
                                    got = ring.reduce(pool[a].clone()).residue();
                                    want = r0;
                                }
                            }
                        }
                        5 => {
                            // a second ring with the same modulus, built from a by-value modulus
                            let ring2 = ConstDivisor::new(pool[b].clone().unsigned_abs());
                            let x = ring2.reduce(pool[a].clone());
                            got = (-x).residue();
                            want = (-&r0).mod_floor(&mm);
                        }
                        _ => {
                            // plain division helpers of the ConstDivisor
                            let q = &pool[a] / &ring;
                            let r = &pool[a] % &ring;
                            let (tq, tr) = model[a].div_rem(&mm);
                            if i2n(&q) != tq {
                                return Err(format!("step {step}: IBig / ConstDivisor gives {} but the model says {}", crate::bridge::show_i(&i2n(&q)), crate::bridge::show_i(&tq)));
                            }
                            got = r.unsigned_abs();
                            want = tr.abs();
                        }
                    }
                    drop(ring);
                    let g = BigInt::from(crate::bridge::u2n(&got));
                    if g != want {
                        return Err(format!("step {step} (kind 24 form {form}): ring result {} but the model says {}", crate::bridge::show_i(&g), crate::bridge::show_i(&want)));
                    }
                    pool[d] = IBig::from(got);
                    model[d] = want;
                }
            }
            25 => {
                // gcd / division / roots in by-value and by-reference forms (scratch memory, buffer reuse)
                let (ma, mb) = (model[a].clone(), model[b].clone());
                match form % 8 {
                    0 => {
                        if ma.is_zero() && mb.is_zero() {
                            skipped = true;
                        } else {
                            let g = if form & 8 == 0 { Gcd::gcd(&pool[a], &pool[b]) } else { Gcd::gcd(pool[a].clone(), pool[b].clone()) };
                            pool[d] = IBig::from(g);
                            model[d] = ma.gcd(&mb);
                        }
                    }
                    1 => {
                        if ma.is_zero() && mb.is_zero() {
                            skipped = true;
                        } else {
                            let (g, s, t) = match (form >> 3) % 4 {
                                0 => (&pool[a]).gcd_ext(&pool[b]),
                                1 => pool[a].clone().gcd_ext(pool[b].clone()),
                                2 => (&pool[a]).gcd_ext(pool[b].clone()),
                                _ => pool[a].clone().gcd_ext(&pool[b]),
                            };
                            let lhs = i2n(&s) * &ma + i2n(&t) * &mb;
                            let g = BigInt::from(crate::bridge::u2n(&g));
                            if lhs != g || g != ma.gcd(&mb) {
                                return Err(format!("step {step}: gcd_ext identity broken: s*a + t*b = {} with g = {}", crate::bridge::show_i(&lhs), crate::bridge::show_i(&g)));
                            }
                            pool[d] = s;
                            model[d] = i2n(&pool[d]);
                        }
                    }
                    2 => {
                        if mb.is_zero() {
                            skipped = true;
                        } else {
                            let (q, r) = match (form >> 3) % 4 {
                                0 => DivRem::div_rem(&pool[a], &pool[b]),
                                1 => DivRem::div_rem(pool[a].clone(), pool[b].clone()),
                                2 => DivRem::div_rem(&pool[a], pool[b].clone()),
                                _ => DivRem::div_rem(pool[a].clone(), &pool[b]),
                            };
                            let (tq, tr) = ma.div_rem(&mb);
                            if i2n(&r) != tr {
                                return Err(format!("step {step}: div_rem remainder {} but the model says {}", crate::bridge::show_i(&i2n(&r)), crate::bridge::show_i(&tr)));
                            }
                            pool[d] = q;
                            model[d] = tq;
                        }
                    }
                    3 => {
                        if mb.is_zero() {
                            skipped = true;
                        } else {
                            let (q, r) = if form & 8 == 0 { (&pool[a]).div_rem_euclid(&pool[b]) } else { pool[a].clone().div_rem_euclid(pool[b].clone()) };
                            let tr = ma.mod_floor(&mb.abs());
                            let tq = (&ma - &tr) / &mb;
                            if BigInt::from(crate::bridge::u2n(&r)) != tr {
                                return Err(format!("step {step}: div_rem_euclid remainder wrong"));
                            }
                            pool[d] = q;
                            model[d] = tq;
                        }
                    }
                    4 => {
                        let u = (&pool[a]).unsigned_abs();
                        let (s, r) = u.sqrt_rem();
                        let ts = ma.magnitude().sqrt();
                        let tr = ma.magnitude() - &ts * &ts;
                        if crate::bridge::u2n(&s) != ts {
                            return Err(format!("step {step}: sqrt_rem root wrong"));
                        }
                        pool[d] = IBig::from(r);
                        model[d] = BigInt::from(tr);
                    }
                    5 => {
                        let k = 3 + n % 4;
                        let u = (&pool[a]).unsigned_abs();
                        let (s, r) = if k == 3 { u.cbrt_rem() } else { let s = u.nth_root(k); let r = &u - s.pow(k); (s, r) };
                        let ts = ma.magnitude().nth_root(k as u32);
                        let tr = ma.magnitude() - num_traits::Pow::pow(&ts, k as u32);
                        if crate::bridge::u2n(&s) != ts {
                            return Err(format!("step {step}: root of order {k} wrong"));
                        }
                        pool[d] = IBig::from(r);
                        model[d] = BigInt::from(tr);
                    }
                    6 => {
                        // in-place quotient / remainder: the dividend's buffer is reused
                        if mb.is_zero() {
                            skipped = true;
                        } else {
                            let (tq, tr) = ma.div_rem(&mb);
                            let rhs = pool[b].clone();
                            if form & 8 == 0 {
                                pool[a] /= rhs;
                                model[a] = tq;
                            } else {
                                pool[a] %= &rhs;
                                model[a] = tr;
                            }
                        }
                    }
                    _ => {
                        // UBig forms of the same (unsigned subtraction / division by value)
                        let (ua, ub) = ((&pool[a]).unsigned_abs(), (&pool[b]).unsigned_abs());
                        let (xa, xb) = (ma.magnitude().clone(), mb.magnitude().clone());
                        if xb.is_zero() || xa < xb {
                            skipped = true;
                        } else {
                            let diff = ua.clone() - &ub;
                            let quot = ua / ub;
                            let r = diff + quot;
                            pool[d] = IBig::from(r);
                            model[d] = BigInt::from((&xa - &xb) + (&xa / &xb));
                        }
                    }
                }
            }
            26 => {
                // Zeroize (cargo feature): the digits are wiped, the value becomes a canonical zero and
                // the buffer is released
                zeroize::Zeroize::zeroize(&mut pool[a]);
                model[a] = BigInt::zero();
            }
            _ => {
                // read-only use of a value built by from_static_words (never mutated, never dropped)
                let sw = statics[n % 4];
                // SAFETY: top word non-zero, the array is 'static, the value lives in ManuallyDrop
                // and is only read
                let st = std::mem::ManuallyDrop::new(unsafe { UBig::from_static_words(sw) });
                let ms = big_of_words(sw);
                rep.static_reads += 1;
                match form % 4 {
                    0 => {
                        let r = IBig::from(&*st + (&pool[a]).unsigned_abs());
                        if words_of(&(&ms + model[a].abs())) <= MAXW {
                            pool[d] = r;
                            model[d] = &ms + model[a].abs();
                        }
                    }
                    1 => {
                        let c: UBig = (*st).clone();
                        pool[d] = IBig::from(c);
                        model[d] = ms;
                    }
                    2 => {
                        let ord = (*st).cmp(&(&pool[a]).unsigned_abs());
                        let want = ms.magnitude().cmp(model[a].magnitude());
                        if ord != want {
                            return Err(format!("step {step}: static value compares {ord:?} with slot {a}, model says {want:?}"));
                        }
                    }
                    _ => {
                        let r = &*st * &*st;
                        pool[d] = IBig::from(r);
                        model[d] = &ms * &ms;
                    }
                }
                if st.as_words() != sw {
                    return Err(format!("step {step}: static value changed"));
                }
            }
        }
        if skipped {
            rep.skipped += 1;
        }
        let _ = &mut b;
        // ---- invariants after every step, for every slot
        for i in 0..POOL {
            let got = i2n(&pool[i]);
            if got != model[i] {
                return Err(format!(
                    "step {step} (kind {} form {}): slot {i} holds {} but the model says {}",
                    op.k % NKINDS,
                    form,
                    crate::bridge::show_i(&got),
                    crate::bridge::show_i(&model[i])
                ));
            }
            let (inl, len) = check_repr(&pool[i]).map_err(|e| format!("step {step} (kind {} form {}): slot {i}: {e}", op.k % NKINDS, form))?;
            if was_inline[i] && !inl {
                rep.inline_to_heap += 1;
            }
            if !was_inline[i] && inl {
                rep.heap_to_inline += 1;
            }
            was_inline[i] = inl;
            rep.max_words = rep.max_words.max(len);
            // sign consistency
            if pool[i].is_zero() && pool[i].sign() == Sign::Negative {
                return Err(format!("step {step}: slot {i} is a negative zero"));
            }
            if model[i].sign() == NSign::Minus && pool[i].sign() != Sign::Negative {
                return Err(format!("step {step}: slot {i} lost its sign"));
            }
        }
    }
    Ok(rep)
}

fn cap_nat(v: &Nat) -> Nat {
    if v.0.len() as u64 > MAXW {
        Nat(v.0[..MAXW as usize].to_vec())
    } else {
        v.clone()
    }
}

fn borrow_two<T>(v: &mut [T], i: usize, j: usize) -> (&mut T, &T) {
    assert!(i != j);
    if i < j {
        let (l, r) = v.split_at_mut(j);
        (&mut l[i], &r[0])
    } else {
        let (l, r) = v.split_at_mut(i);
        (&mut r[0], &l[j])
    }
}

/// Decode a byte string into (initial pool, history) — used by the libFuzzer target and to turn
/// fuzz artifacts into replayable cases.
pub fn decode(data: &[u8]) -> (Vec<(bool, Nat)>, Vec<Op>) {
    struct Rd<'a> {
        data: &'a [u8],
        pos: usize,
    }
    impl<'a> Rd<'a> {
        fn next(&mut self, k: usize) -> Vec<u8> {
            let end = (self.pos + k).min(self.data.len());
            let mut v = self.data[self.pos..end].to_vec();
            self.pos = end;
            v.resize(k, 0);
            v
        }
        fn nat(&mut self) -> Nat {
            let hdr = self.next(2);
            let len = match hdr[0] % 8 {
                0 => 0,
                1 => 1,
                2 => 2,
                3 => 3,
                4 => 4,
                5 => 5 + (hdr[1] % 8) as usize,
                6 => 30 + (hdr[1] % 40) as usize,
                _ => (hdr[1] % 120) as usize,
            };
            let pat = hdr[1] >> 4;
            let seed = u64::from_le_bytes(self.next(8).try_into().unwrap());
            Nat(crate::gen::expand(len, pat, seed))
        }
    }
    let mut rd = Rd { data, pos: 0 };
    let mut init = Vec::new();
    for _ in 0..POOL {
        let neg = rd.next(1)[0] & 1 == 1;
        let v = rd.nat();
        init.push((neg, v));
    }
    let mut ops = Vec::new();
    while rd.pos < data.len() && ops.len() < 64 {
        let h = rd.next(8);
        let k = h[0] % NKINDS;
        let v = if matches!(k, 0 | 1 | 2 | 4 | 22) { rd.nat() } else { Nat(vec![]) };
        ops.push(Op { k, a: h[1], b: h[2], d: h[3], form: h[4], n: u32::from_le_bytes([h[5], h[6], h[7], 0]), neg: h[1] & 0x80 != 0, v });
    }
    (init, ops)
}
