//! Shared proptest strategies: structured big operands whose length classes straddle the
//! representation / algorithm thresholds read from the dashu sources.
//!
//! Operands are expanded deterministically from generated (length, pattern, seed) recipes, so
//! shrinking moves to shorter lengths first, then to simpler patterns.

use crate::bridge::{Int, Nat};
use proptest::prelude::*;
use proptest::strategy::Union;

#[derive(Clone, Copy, Debug, PartialEq, Eq, PartialOrd, Ord)]
pub enum Prof {
    /// 0..=4 words: the inline/heap boundary
    Tiny,
    /// up to 12 words
    Small,
    /// up to ~70 words: schoolbook/karatsuba (24), sqr (30), div (32) thresholds
    Medium,
    /// up to ~400 words: karatsuba/toom-3 (192)
    Large,
    /// up to ~3000 words (quick) — radix divide-and-conquer, big toom-3
    Huge,
    /// up to ~30000 words (thorough only)
    Giant,
}

pub struct SplitMix(pub u64);
impl SplitMix {
    pub fn next(&mut self) -> u64 {
        self.0 = self.0.wrapping_add(0x9E3779B97F4A7C15);
        let mut z = self.0;
        z = (z ^ (z >> 30)).wrapping_mul(0xBF58476D1CE4E5B9);
        z = (z ^ (z >> 27)).wrapping_mul(0x94D049BB133111EB);
        z ^ (z >> 31)
    }
    pub fn below(&mut self, n: u64) -> u64 {
        ((self.next() as u128 * n as u128) >> 64) as u64
    }
}

/// word-count strategy for a profile; smaller classes come first (shrinking target)
pub fn len(prof: Prof) -> BoxedStrategy<usize> {
    let mut v: Vec<(u32, BoxedStrategy<usize>)> = vec![
        (3, (0usize..=1).boxed()),
        (4, Just(2usize).boxed()),
        (5, Just(3usize).boxed()),
        (3, Just(4usize).boxed()),
    ];
    if prof >= Prof::Small {
        v.push((6, (5usize..=12).boxed()));
    }
    if prof >= Prof::Medium {
        v.push((2, (13usize..=22).boxed()));
        v.push((3, (23usize..=26).boxed()));
        v.push((3, (29usize..=34).boxed()));
        v.push((2, (35usize..=70).boxed()));
    }
    if prof >= Prof::Large {
        v.push((1, (71usize..=189).boxed()));
        v.push((2, (190usize..=195).boxed()));
        v.push((1, (196usize..=400).boxed()));
    }
    if prof >= Prof::Huge {
        v.push((1, (384usize..=390).boxed()));
        v.push((1, (577usize..=800).boxed()));
        v.push((1, (1000usize..=3000).boxed()));
    }
    if prof >= Prof::Giant {
        v.push((1, (3000usize..=30000).boxed()));
    }
    Union::new_weighted(v).boxed()
}

pub const N_PATTERNS: u8 = 13;

/// deterministic expansion of a recipe into exactly `n` words (top word non-zero unless n == 0)
pub fn expand(n: usize, pattern: u8, seed: u64) -> Vec<u64> {
    if n == 0 {
        return vec![];
    }
    let mut r = SplitMix(seed);
    let mut v = vec![0u64; n];
    match pattern % N_PATTERNS {
        0 => {
            // 2^(64(n-1)): top word 1, rest zero
            v[n - 1] = 1;
        }
        1 => {
            for w in v.iter_mut() {
                *w = r.next();
            }
        }
        2 => {
            for w in v.iter_mut() {
                *w = u64::MAX;
            }
        }
        3 => {
            v[n - 1] = 1 << r.below(64);
        }
        4 => {
            // 2^k + small
            v[n - 1] = 1 << r.below(64);
            v[0] |= r.below(4);
        }
        5 => {
            // 2^k - small  (all ones below the top bit, minus a small value)
            let b = r.below(64);
            for w in v.iter_mut() {
                *w = u64::MAX;
            }
            v[n - 1] = if b == 63 { u64::MAX } else { (1u64 << (b + 1)) - 1 };
            v[0] = v[0].wrapping_sub(r.below(4));
            if n == 1 && v[0] == 0 {
                v[0] = 1;
            }
        }
        6 => {
            // sparse: words from {0, MAX, random}
            for w in v.iter_mut() {
                *w = match r.below(4) {
                    0 | 1 => 0,
                    2 => u64::MAX,
                    _ => r.next(),
                };
            }
        }
        7 => {
            for (i, w) in v.iter_mut().enumerate() {
                *w = if i % 2 == 0 { 0 } else { u64::MAX };
            }
        }
        8 => {
            // low words zero, high words random
            let z = 1 + r.below(n as u64) as usize;
            for (i, w) in v.iter_mut().enumerate() {
                *w = if i < z.min(n - 1) { 0 } else { r.next() };
            }
        }
        9 => {
            // top word = 1, rest random
            for w in v.iter_mut() {
                *w = r.next();
            }
            v[n - 1] = 1;
        }
        10 => {
            // top bit set, rest random
            for w in v.iter_mut() {
                *w = r.next();
            }
            v[n - 1] |= 1 << 63;
        }
        12 => {
            // blocks: the number is cut into 2, 3, 4 or 6 equal segments (or at a random position);
            // each segment is all zeros, all ones or random; top and bottom bit set at will.
            // Long runs of equal words that start and end at the split points of the recursive
            // multiplication / division algorithms make carries and borrows travel across a whole part.
            let parts = [2usize, 3, 4, 6, 2, 3][r.below(6) as usize];
            let cut = if r.below(4) == 0 { 1 + r.below(n as u64) as usize } else { 0 };
            let seg = ((n + parts - 1) / parts).max(1);
            let mut state = 0u64;
            for (i, w) in v.iter_mut().enumerate() {
                if i % seg == 0 || i == cut {
                    state = r.below(20);
                }
                *w = match state {
                    0..=8 => 0,
                    9..=17 => u64::MAX,
                    _ => r.next(),
                };
            }
            if r.below(2) == 0 {
                v[n - 1] |= 1 << 63;
            }
            if r.below(2) == 0 {
                v[0] |= 1;
            }
        }
        _ => {
            // high part all ones, low part random (carry chains)
            let z = r.below(n as u64) as usize;
            for (i, w) in v.iter_mut().enumerate() {
                *w = if i < z { r.next() } else { u64::MAX };
            }
        }
    }
    if v[n - 1] == 0 {
        v[n - 1] = 1;
    }
    v
}

pub fn nat(prof: Prof) -> BoxedStrategy<Nat> {
    (len(prof), 0u8..N_PATTERNS, any::<u64>()).prop_map(|(n, p, s)| Nat(expand(n, p, s))).boxed()
}

/// natural number with exactly the given word-count range
pub fn nat_len(lo: usize, hi: usize) -> BoxedStrategy<Nat> {
    (lo..=hi, 0u8..N_PATTERNS, any::<u64>()).prop_map(|(n, p, s)| Nat(expand(n, p, s))).boxed()
}

pub fn int(prof: Prof) -> BoxedStrategy<Int> {
    (any::<bool>(), nat(prof)).prop_map(|(neg, mag)| Int { neg: neg && !mag.is_zero(), mag }).boxed()
}

/// non-zero natural
pub fn nat_nz(prof: Prof) -> BoxedStrategy<Nat> {
    nat(prof).prop_map(|n| if n.is_zero() { Nat(vec![1]) } else { n }).boxed()
}

/// Pair of naturals with a relation class; returns (a, b, relation label index)
/// 0 independent, 1 equal, 2 b = a+1, 3 b = a-1 (or 0), 4 same length, 5 b = a * small, 6 unbalanced
pub fn nat_pair(prof: Prof) -> BoxedStrategy<(Nat, Nat, u8)> {
    (nat(prof), nat(prof), 0u8..12, any::<u64>())
        .prop_map(|(a, b, rel, s)| {
            use num_bigint::BigUint;
            use num_traits::{One, Zero};
            match rel {
                0..=5 => (a, b, 0),
                6 => (a.clone(), a, 1),
                7 => {
                    let b = Nat::from_big(&(a.big() + BigUint::one()));
                    (a, b, 2)
                }
                8 => {
                    let ab = a.big();
                    let b = if ab.is_zero() { ab.clone() } else { &ab - BigUint::one() };
                    (a, Nat::from_big(&b), 3)
                }
                9 => {
                    let n = a.trimmed_len();
                    let b = Nat(expand(n, (s % N_PATTERNS as u64) as u8, s));
                    (a, b, 4)
                }
                10 => {
                    let k = (s % 1000) + 2;
                    let b = Nat::from_big(&(a.big() * BigUint::from(k)));
                    (a, b, 5)
                }
                _ => {
                    // unbalanced: b is a short prefix of its own expansion
                    let n = b.trimmed_len();
                    let m = (n / 10).max(1).min(n);
                    (a, Nat(b.0[..m].to_vec()), 6)
                }
            }
        })
        .boxed()
}

pub const REL_LABELS: [&str; 7] = ["rel:independent", "rel:equal", "rel:a+1", "rel:a-1", "rel:same-len", "rel:multiple", "rel:unbalanced"];

pub fn repr_class(words: usize) -> &'static str {
    match words {
        0 => "len:0",
        1 => "len:1",
        2 => "len:2(inline)",
        3 => "len:3(first heap)",
        4..=12 => "len:4-12",
        13..=24 => "len:13-24",
        25..=32 => "len:25-32",
        33..=70 => "len:33-70",
        71..=192 => "len:71-192",
        193..=400 => "len:193-400",
        401..=3000 => "len:401-3000",
        _ => "len:>3000",
    }
}

/// monotone index mapping (shrinks towards index 0)
pub fn pick<T: Clone>(items: &[T], i: u16) -> T {
    items[(i as usize * items.len()) >> 16].clone()
}

/// interesting shift counts / bit positions relative to a length in words
pub fn position(len_words: usize, sel: u16, seed: u64) -> usize {
    let l = len_words * 64;
    let cands = [
        0usize,
        1,
        2,
        31,
        32,
        33,
        63,
        64,
        65,
        127,
        128,
        129,
        191,
        192,
        193,
        l.saturating_sub(65),
        l.saturating_sub(64),
        l.saturating_sub(1),
        l,
        l + 1,
        l + 63,
        l + 64,
        l + 65,
        l + 200,
        (seed % (l as u64 + 130)) as usize,
        (seed % (l as u64 + 130)) as usize,
        (seed % 200) as usize,
    ];
    pick(&cands, sel)
}

/// Pair (p, q), p > q, of about `lp` words whose continued fraction starts with chosen partial
/// quotients: (p, q) <- (k·p + q, p) is unrolled over a pattern of quotient kinds read from the top
/// of the expansion — 'H' 58..64 bits, 'h' 61..63 bits, 'W' 2^64 + small, 'M' 2..3 words, 's' small
/// (mostly 3) — in front of random tails of `lp` and `lp - gap` words. The shapes
/// "h s s h M" are the ones for which the exactness tests of the double-word Lehmer guess bind.
pub fn lehmer_quotient_pair(lp: usize, gap: usize, seed: u64, shape: u8, pre: usize) -> (num_bigint::BigUint, num_bigint::BigUint) {
    use num_bigint::BigUint;
    use num_traits::One;
    let mut r = SplitMix(seed ^ 0x1e4e);
    let big = |w: Vec<u64>| BigUint::from_bytes_le(&w.iter().flat_map(|x| x.to_le_bytes()).collect::<Vec<u8>>());
    let mut p = big(expand(lp, 1, seed));
    let mut q = big(expand(lp - gap.min(lp - 1), 1, seed ^ 0x55));
    if p < q {
        std::mem::swap(&mut p, &mut q);
    }
    let quot = |r: &mut SplitMix, kind: char| -> BigUint {
        match kind {
            'H' => BigUint::from(r.next() >> r.below(7)).max(BigUint::one()),
            'h' => BigUint::from((r.next() | 1 << 63) >> (1 + r.below(3))),
            'W' => (BigUint::one() << 64usize) + BigUint::from(r.below(1 << 20)),
            'M' => BigUint::from(r.next() | 1 << 63) * BigUint::from(r.next() | 1) * if r.below(2) == 0 { BigUint::one() } else { BigUint::from(r.next()) },
            _ => BigUint::from(if r.below(10) < 7 { 3 } else { 1 + r.below(4) }),
        }
    };
    let pattern: Vec<char> = match shape % 8 {
        0 | 1 => "hsshM".chars().collect(),
        2 => "HssHM".chars().collect(),
        3 => "hssh".chars().collect(), // the multi-word quotient comes from the tail gap
        4 => "hshM".chars().collect(),
        5 => "WssWM".chars().collect(),
        6 => "hssshM".chars().collect(),
        _ => (0..2 + r.below(6)).map(|_| ['H', 'h', 'W', 'M', 's', 's'][r.below(6) as usize]).collect(),
    };
    let pattern: Vec<char> = std::iter::repeat('s').take(pre).chain(pattern.into_iter()).collect();
    for kind in pattern.iter().rev() {
        let k = quot(&mut r, *kind);
        let np = &k * &p + &q;
        q = p;
        p = np;
    }
    (p, q)
}
