//! Check engine: proptest driven from a binary, sharded over threads, with verdicts,
//! known-finding matching, replay files and evidence output.
//!
//! A check binary builds a [`Check`], registers sub-properties with [`Check::sub`] and calls
//! [`Check::finish`].  Every random choice lives in a proptest `Strategy`; a run is a pure
//! function of (working tree of /repo, VERIF_SEED, tier).

use proptest::strategy::{Strategy, ValueTree};
use proptest::test_runner::{Config, RngAlgorithm, RngSeed, TestCaseError, TestError, TestRng, TestRunner};
use serde::de::DeserializeOwned;
use serde::Serialize;
use serde_json::{json, Value};
use std::cell::RefCell;
use std::collections::hash_map::DefaultHasher;
use std::collections::{BTreeMap, HashSet};
use std::fmt::Debug;
use std::hash::{Hash, Hasher};
use std::panic::{catch_unwind, AssertUnwindSafe};
use std::path::PathBuf;
use std::sync::atomic::{AtomicBool, Ordering};
use std::time::Instant;

pub const VERIF_ROOT: &str = "/verif";
pub const SHARDS: u32 = 16;

/// where replays and evidence are written: /verif, unless DV_OUT redirects them (used only by
/// tools/mutcheck.sh, which runs the checks against a scratch copy of /repo)
pub fn out_root() -> String {
    std::env::var("DV_OUT").unwrap_or_else(|_| VERIF_ROOT.to_string())
}

#[derive(Clone, Copy, PartialEq, Eq, Debug)]
pub enum Tier {
    Quick,
    Thorough,
}

#[derive(Clone, Debug)]
pub enum Verdict {
    Pass,
    /// failing observation matching an *active* entry of known_findings.json
    Known(String),
    Violation(String),
    /// the oracle could not decide (never a violation)
    Inconclusive(String),
}

#[derive(Clone, Debug)]
pub struct Out {
    pub verdict: Verdict,
    pub nontrivial: bool,
    pub labels: Vec<&'static str>,
}

impl Out {
    pub fn new() -> Out {
        Out { verdict: Verdict::Pass, nontrivial: false, labels: Vec::new() }
    }
    pub fn label(&mut self, l: &'static str) {
        self.labels.push(l);
    }
    pub fn nontrivial(&mut self, b: bool) {
        self.nontrivial = self.nontrivial || b;
    }
    pub fn is_pass(&self) -> bool {
        matches!(self.verdict, Verdict::Pass)
    }
    /// record a failure; the first non-pass verdict sticks, except that a Violation overrides
    /// Known / Inconclusive.
    pub fn fail(&mut self, sig: impl Into<String>) {
        if !matches!(self.verdict, Verdict::Violation(_)) {
            self.verdict = Verdict::Violation(sig.into());
        }
    }
    pub fn inconclusive(&mut self, why: impl Into<String>) {
        if matches!(self.verdict, Verdict::Pass) {
            self.verdict = Verdict::Inconclusive(why.into());
        }
    }
    pub fn check(&mut self, cond: bool, sig: impl FnOnce() -> String) {
        if !cond {
            self.fail(sig());
        }
    }
}

impl Default for Out {
    fn default() -> Self {
        Out::new()
    }
}

/// Read-only view of known_findings.json.
#[derive(Clone, Debug)]
pub struct Known {
    entries: Vec<KnownEntry>,
}

#[derive(Clone, Debug)]
pub struct KnownEntry {
    pub id: String,
    pub property: String,
    pub state: String,
    pub what: String,
    pub witnesses: Vec<(String, String, Value)>, // (property, sub, case)
}

impl Known {
    pub fn load() -> Known {
        let mut paths = vec![format!("{}/known_findings.json", VERIF_ROOT)];
        if let Ok(rd) = std::fs::read_dir(format!("{}/known_findings.d", VERIF_ROOT)) {
            let mut extra: Vec<String> = rd.filter_map(|e| e.ok()).map(|e| e.path().display().to_string()).filter(|p| p.ends_with(".json")).collect();
            extra.sort();
            paths.extend(extra);
        }
        let mut entries = Vec::new();
        for path in paths {
            let txt = match std::fs::read_to_string(&path) {
                Ok(t) => t,
                Err(_) => continue,
            };
            let v: Value = serde_json::from_str(&txt).unwrap_or_else(|e| infra(&format!("known_findings.json: {e}")));
            for e in v["findings"].as_array().cloned().unwrap_or_default() {
                let mut witnesses = Vec::new();
                for w in e["witnesses"].as_array().cloned().unwrap_or_default() {
                    witnesses.push((
                        w["property"].as_str().unwrap_or("").to_string(),
                        w["sub"].as_str().unwrap_or("").to_string(),
                        w["case"].clone(),
                    ));
                }
                entries.push(KnownEntry {
                    id: e["id"].as_str().unwrap_or("").to_string(),
                    property: e["property"].as_str().unwrap_or("").to_string(),
                    state: e["state"].as_str().unwrap_or("").to_string(),
                    what: e["what"].as_str().unwrap_or("").to_string(),
                    witnesses,
                });
            }
        }
        Known { entries }
    }
    pub fn active(&self, id: &str) -> bool {
        self.entries.iter().any(|e| e.id == id && e.state == "known")
    }
}

pub struct Ctx<'a> {
    pub tier: Tier,
    pub known: &'a Known,
    pub strict: bool,
}

impl<'a> Ctx<'a> {
    /// A failing observation whose signature (call site + input class, decided by the caller)
    /// corresponds to finding `id`: `Known` if that id is listed as active, else a violation.
    pub fn known_or_fail(&self, out: &mut Out, id: &str, detail: impl FnOnce() -> String) {
        if self.known.active(id) {
            if matches!(out.verdict, Verdict::Pass | Verdict::Inconclusive(_)) {
                out.verdict = Verdict::Known(id.to_string());
            }
        } else {
            out.fail(format!("[{}] {}", id, detail()));
        }
    }
    pub fn thorough(&self) -> bool {
        self.tier == Tier::Thorough
    }
}

pub fn infra(msg: &str) -> ! {
    eprintln!("INFRA: {msg}");
    println!("INFRA-ERROR: {msg}");
    std::process::exit(2);
}

thread_local! {
    static LAST_PANIC: RefCell<Option<String>> = const { RefCell::new(None) };
}

pub fn install_panic_hook() {
    std::panic::set_hook(Box::new(|info| {
        let msg = if let Some(s) = info.payload().downcast_ref::<&str>() {
            s.to_string()
        } else if let Some(s) = info.payload().downcast_ref::<String>() {
            s.clone()
        } else {
            "<non-string panic>".to_string()
        };
        let loc = info.location().map(|l| format!("{}:{}", l.file(), l.line())).unwrap_or_default();
        LAST_PANIC.with(|p| *p.borrow_mut() = Some(format!("{msg} @ {loc}")));
    }));
}

/// Run `f`, turning a panic into `Err(message @ file:line)`.
pub fn catch<T>(f: impl FnOnce() -> T) -> Result<T, String> {
    match catch_unwind(AssertUnwindSafe(f)) {
        Ok(v) => Ok(v),
        Err(_) => Err(LAST_PANIC.with(|p| p.borrow_mut().take()).unwrap_or_else(|| "<panic>".into())),
    }
}

/// digits -> '#', so that signatures do not depend on embedded numbers
pub fn normalise(msg: &str) -> String {
    let mut s = String::new();
    let mut last_hash = false;
    for c in msg.chars() {
        if c.is_ascii_digit() {
            if !last_hash {
                s.push('#');
            }
            last_hash = true;
        } else {
            s.push(c);
            last_hash = false;
        }
    }
    s
}

fn digest<C: Hash>(c: &C) -> u64 {
    let mut h = DefaultHasher::new();
    c.hash(&mut h);
    h.finish()
}

fn mix(a: u64, b: u64) -> u64 {
    let mut z = a ^ b.wrapping_mul(0x9E3779B97F4A7C15);
    z = (z ^ (z >> 30)).wrapping_mul(0xBF58476D1CE4E5B9);
    z = (z ^ (z >> 27)).wrapping_mul(0x94D049BB133111EB);
    z ^ (z >> 31)
}

fn str_hash(s: &str) -> u64 {
    let mut h = DefaultHasher::new();
    s.hash(&mut h);
    h.finish()
}

#[derive(Default)]
struct Stats {
    evaluations: u64,
    nontrivial: u64,
    digests: HashSet<u64>,
    labels: BTreeMap<&'static str, u64>,
    known: BTreeMap<String, u64>,
    inconclusive: u64,
    inconclusive_sample: Option<String>,
    samples: Vec<Value>,
}

impl Stats {
    fn merge(&mut self, o: Stats) {
        self.evaluations += o.evaluations;
        self.nontrivial += o.nontrivial;
        self.digests.extend(o.digests);
        for (k, v) in o.labels {
            *self.labels.entry(k).or_default() += v;
        }
        for (k, v) in o.known {
            *self.known.entry(k).or_default() += v;
        }
        self.inconclusive += o.inconclusive;
        if self.inconclusive_sample.is_none() {
            self.inconclusive_sample = o.inconclusive_sample;
        }
        self.samples.extend(o.samples);
    }
}

struct SubReport {
    name: String,
    stats: Stats,
    violation: Option<(String, PathBuf)>,
    wall_s: f64,
    extra: Option<Value>,
}

pub struct Check {
    pub property: &'static str,
    pub tier: Tier,
    pub seed: u64,
    pub scale: f64,
    rule: String,
    replay: Option<(String, Value)>,
    replay_path: Option<String>,
    only: Option<Vec<String>>,
    known: Known,
    reports: Vec<SubReport>,
    start: Instant,
    assumptions: Vec<String>,
    extra: BTreeMap<String, Value>,
    known_lines_done: bool,
    replay_hit: bool,
    regress_failed: Vec<(String, PathBuf)>,
    strict: bool,
    printed_known: std::cell::RefCell<HashSet<String>>,
}

const SAMPLE_MAX_BYTES: usize = 1500;

impl Check {
    pub fn new(property: &'static str, rule: &str) -> Check {
        install_panic_hook();
        let args: Vec<String> = std::env::args().collect();
        let mut tier = match std::env::var("VERIF_TIER").ok().as_deref() {
            Some("thorough") => Tier::Thorough,
            _ => Tier::Quick,
        };
        let mut replay = None;
        let mut replay_path: Option<String> = None;
        let mut only = None;
        let mut scale = std::env::var("VERIF_SCALE").ok().and_then(|s| s.parse().ok()).unwrap_or(1.0);
        let mut strict = false;
        let mut i = 1;
        while i < args.len() {
            match args[i].as_str() {
                "--tier" => {
                    i += 1;
                    tier = match args.get(i).map(|s| s.as_str()) {
                        Some("thorough") => Tier::Thorough,
                        Some("quick") => Tier::Quick,
                        _ => infra("--tier quick|thorough"),
                    }
                }
                "--replay" => {
                    i += 1;
                    let p = args.get(i).unwrap_or_else(|| infra("--replay <file>"));
                    let txt = std::fs::read_to_string(p).unwrap_or_else(|e| infra(&format!("replay file {p}: {e}")));
                    let v: Value = serde_json::from_str(&txt).unwrap_or_else(|e| infra(&format!("replay file {p}: {e}")));
                    let sub = v["sub"].as_str().unwrap_or_else(|| infra("replay file lacks sub")).to_string();
                    replay = Some((sub, v["case"].clone()));
                    replay_path = Some(p.clone());
                    strict = true;
                }
                "--only" => {
                    i += 1;
                    only = Some(args.get(i).unwrap_or_else(|| infra("--only a,b")).split(',').map(|s| s.to_string()).collect());
                }
                "--scale" => {
                    i += 1;
                    scale = args.get(i).and_then(|s| s.parse().ok()).unwrap_or_else(|| infra("--scale f"));
                }
                other => infra(&format!("unknown argument {other}")),
            }
            i += 1;
        }
        let seed = std::env::var("VERIF_SEED").ok().and_then(|s| s.trim().parse::<i128>().ok()).map(|v| v as u64).unwrap_or(0);
        Check {
            property,
            tier,
            seed,
            scale,
            rule: rule.to_string(),
            replay,
            replay_path,
            only,
            known: Known::load(),
            reports: Vec::new(),
            start: Instant::now(),
            assumptions: vec![
                "rustc/std, proptest 1.x (generation, shrinking)".into(),
                "num-bigint / num-rational 0.4 as the independent exact reference (different authors and algorithms from dashu)".into(),
                "the harness' own oracle code under /verif/harness".into(),
                "x86_64, 64-bit Word, default features + serde unless the check says otherwise".into(),
            ],
            extra: BTreeMap::new(),
            known_lines_done: false,
            replay_hit: false,
            regress_failed: Vec::new(),
            strict,
            printed_known: std::cell::RefCell::new(HashSet::new()),
        }
    }

    pub fn assume(&mut self, s: &str) {
        self.assumptions.push(s.to_string());
    }
    pub fn extra(&mut self, k: &str, v: Value) {
        self.extra.insert(k.to_string(), v);
    }
    pub fn thorough(&self) -> bool {
        self.tier == Tier::Thorough
    }
    pub fn is_replay(&self) -> bool {
        self.replay.is_some()
    }
    pub fn known(&self) -> &Known {
        &self.known
    }
    pub fn wants(&self, name: &str) -> bool {
        if let Some((sub, _)) = &self.replay {
            return sub == name;
        }
        match &self.only {
            Some(list) => list.iter().any(|s| s == name),
            None => true,
        }
    }

    /// Register and run one sub-property.
    ///
    /// * `cases`: (quick, thorough) number of generated cases (split over SHARDS fixed shards)
    /// * `mk`: builds the strategy (once per shard)
    /// * `f`: the oracle; must be a pure function of the case
    pub fn sub<C, S, MK, F>(&mut self, name: &'static str, cases: (u32, u32), mk: MK, f: F)
    where
        C: Debug + Clone + Hash + Serialize + DeserializeOwned + Send,
        S: Strategy<Value = C>,
        MK: Fn() -> S + Sync,
        F: Fn(&C, &Ctx) -> Out + Sync,
    {
        if !self.wants(name) {
            return;
        }
        let t0 = Instant::now();
        let known_local = self.known.clone();
        let ctx = Ctx { tier: self.tier, known: &known_local, strict: self.strict };
        let run_one = |c: &C| -> Out {
            match catch(|| f(c, &ctx)) {
                Ok(o) => o,
                Err(msg) => {
                    let mut o = Out::new();
                    o.fail(format!("unexpected panic: {}", normalise(&msg)));
                    o
                }
            }
        };

        // --- replay mode: a single case, no proptest
        if let Some((sub, case)) = &self.replay {
            if sub == name {
                self.replay_hit = true;
                let c: C = serde_json::from_value(case.clone()).unwrap_or_else(|e| infra(&format!("cannot decode replay case: {e}")));
                // a replayed case that ends in a memory fault or an abort is a violation as well
                {
                    install_crash_handler();
                    let (rprop, rname) = (self.property.to_string(), name.to_string());
                    let replay_path = self.replay_path.clone().unwrap_or_default();
                    let hook: CrashHook = std::sync::Arc::new(move |_tid: u64, sig: i32| -> bool {
                        println!("REPLAY property={rprop} sub={rname} verdict=violation the process was stopped by {} while this case was being evaluated", signal_name(sig));
                        println!("VIOLATION property={rprop} replay={replay_path}");
                        true
                    });
                    *CRASH_HOOK.lock().unwrap() = Some(hook);
                }
                let o = run_one(&c);
                if let Ok(mut g) = CRASH_HOOK.lock() {
                    *g = None;
                }
                match &o.verdict {
                    Verdict::Pass => println!("REPLAY property={} sub={} verdict=pass", self.property, name),
                    Verdict::Known(id) => println!("REPLAY property={} sub={} verdict=known-finding {}", self.property, name, id),
                    Verdict::Inconclusive(w) => println!("REPLAY property={} sub={} verdict=inconclusive {}", self.property, name, w),
                    Verdict::Violation(sig) => {
                        println!("REPLAY property={} sub={} verdict=violation {}", self.property, name, sig);
                        let path = self.write_replay(name, &c, sig);
                        println!("VIOLATION property={} replay={}", self.property, path.display());
                        let mut st = Stats::default();
                        st.evaluations = 1;
                        self.reports.push(SubReport { name: name.into(), stats: st, violation: Some((sig.clone(), path)), wall_s: 0.0, extra: None });
                        return;
                    }
                }
                let mut st = Stats::default();
                st.evaluations = 1;
                self.reports.push(SubReport { name: name.into(), stats: st, violation: None, wall_s: 0.0, extra: None });
            }
            return;
        }

        // --- known-finding witnesses and committed regression cases for this sub
        self.run_witnesses::<C>(name, &run_one);

        // --- generated search
        let total = {
            let base = if self.tier == Tier::Thorough { cases.1 } else { cases.0 };
            ((base as f64 * self.scale).ceil() as u32).max(SHARDS)
        };
        let per_shard = (total + SHARDS - 1) / SHARDS;
        let stop = AtomicBool::new(false);
        let sub_seed = mix(mix(self.seed, str_hash(self.property)), str_hash(name));
        let nthreads = std::thread::available_parallelism().map(|n| n.get()).unwrap_or(4).min(SHARDS as usize);
        let next = std::sync::atomic::AtomicU32::new(0);
        let results: std::sync::Mutex<Vec<(u32, Stats, Option<(C, String)>)>> = std::sync::Mutex::new(Vec::new());
        // hang watchdog: every worker publishes the case it is working on; a monitor thread
        // measures the CPU time the worker has spent on it (not wall time: load cannot trigger it)
        let slots: Vec<std::sync::Mutex<Option<(u64, u64, C)>>> = (0..nthreads).map(|_| std::sync::Mutex::new(None)).collect();
        let workers_done = std::sync::atomic::AtomicUsize::new(0);
        let evals_total = std::sync::atomic::AtomicU64::new(0);
        let hang_limit_s: u64 = std::env::var("DV_HANG_LIMIT").ok().and_then(|s| s.parse().ok()).unwrap_or(150);
        let (wprop, wseed, wtier) = (self.property, self.seed, self.tier);

        // crash hook for this sub: the slot of the crashing thread holds the case
        {
            install_crash_handler();
            let slots_addr = &slots as *const Vec<std::sync::Mutex<Option<(u64, u64, C)>>> as usize;
            let evals_addr = &evals_total as *const std::sync::atomic::AtomicU64 as usize;
            let sub_name = name.to_string();
            let hook: CrashHook = std::sync::Arc::new(move |tid: u64, sig: i32| -> bool {
                // SAFETY: the hook is removed before `slots` and `evals_total` go out of scope (below)
                let slots = unsafe { &*(slots_addr as *const Vec<std::sync::Mutex<Option<(u64, u64, C)>>>) };
                let evals = unsafe { &*(evals_addr as *const std::sync::atomic::AtomicU64) };
                for slot in slots.iter() {
                    if let Ok(g) = slot.try_lock() {
                        if let Some((t, _, case)) = &*g {
                            if *t == tid {
                                let sig_txt = format!("the process was stopped by {} while this case was being evaluated (memory fault or abort inside the library)", signal_name(sig));
                                let path = write_replay_file(wprop, wseed, wtier, &sub_name, case, &sig_txt);
                                println!("VIOLATION property={} replay={}", wprop, path.display());
                                println!("  sub={} signature={}", sub_name, sig_txt);
                                write_abort_evidence(wprop, wseed, wtier, &sub_name, evals.load(Ordering::Relaxed), case, &sig_txt, &path);
                                return true;
                            }
                        }
                    }
                }
                false
            });
            // SAFETY of the 'static bound: see above; the closure only lives in CRASH_HOOK until the reset below
            let hook: CrashHook = unsafe { std::mem::transmute::<std::sync::Arc<dyn Fn(u64, i32) -> bool + Send + Sync + '_>, CrashHook>(hook) };
            *CRASH_HOOK.lock().unwrap() = Some(hook);
        }
        struct HookReset;
        impl Drop for HookReset {
            fn drop(&mut self) {
                if let Ok(mut g) = CRASH_HOOK.lock() {
                    *g = None;
                }
            }
        }
        let _hook_reset = HookReset;

        std::thread::scope(|sc| {
            // monitor
            sc.spawn(|| {
                while workers_done.load(Ordering::SeqCst) < nthreads {
                    std::thread::sleep(std::time::Duration::from_millis(500));
                    for slot in slots.iter() {
                        let cur = slot.lock().unwrap().clone();
                        if let Some((tid, cpu0, case)) = cur {
                            let now = thread_cpu_ticks(tid);
                            if now >= cpu0 && (now - cpu0) / 100 >= hang_limit_s {
                                // the call has been burning CPU for minutes: it does not return
                                let sig = format!("the case does not return: {hang_limit_s} s of CPU time spent in it without an answer (hang)");
                                let path = write_replay_file(wprop, wseed, wtier, name, &case, &sig);
                                println!("VIOLATION property={} replay={}", wprop, path.display());
                                println!("  sub={} signature={}", name, sig);
                                write_abort_evidence(wprop, wseed, wtier, name, evals_total.load(Ordering::Relaxed), &case, &sig, &path);
                                std::process::exit(1);
                            }
                        }
                    }
                }
            });
            for widx in 0..nthreads {
                let slot = &slots[widx];
                let workers_done = &workers_done;
                let evals_total = &evals_total;
                let next = &next;
                let results = &results;
                let stop = &stop;
                let run_one = &run_one;
                let mk = &mk;
                sc.spawn(move || {
                    install_thread();
                    let tid = current_tid();
                    struct Done<'a>(&'a std::sync::atomic::AtomicUsize);
                    impl<'a> Drop for Done<'a> {
                        fn drop(&mut self) {
                            self.0.fetch_add(1, Ordering::SeqCst);
                        }
                    }
                    let _done = Done(workers_done);
                    loop {
                        let shard = next.fetch_add(1, Ordering::SeqCst);
                        if shard >= SHARDS {
                            break;
                        }
                        let seed = mix(sub_seed, shard as u64);
                        let mut seed_bytes = [0u8; 32];
                        for k in 0..4 {
                            seed_bytes[k * 8..k * 8 + 8].copy_from_slice(&mix(seed, k as u64).to_le_bytes());
                        }
                        let mut config = Config::default();
                        config.cases = per_shard;
                        config.failure_persistence = None;
                        config.max_shrink_iters = 400;
                        config.max_local_rejects = 65536;
                        config.max_global_rejects = 65536;
                        config.rng_seed = RngSeed::Fixed(seed);
                        let rng = TestRng::from_seed(RngAlgorithm::ChaCha, &seed_bytes);
                        let mut runner = TestRunner::new_with_rng(config, rng);
                        let strat = mk();
                        let stats = RefCell::new(Stats::default());
                        let failed = std::cell::Cell::new(false);
                        let res = runner.run(&strat, |c: C| {
                            if failed.get() {
                                // shrinking: no counting
                                let o = run_one(&c);
                                return match o.verdict {
                                    Verdict::Violation(s) => Err(TestCaseError::fail(s)),
                                    _ => Ok(()),
                                };
                            }
                            if stop.load(Ordering::Relaxed) {
                                return Ok(());
                            }
                            *slot.lock().unwrap() = Some((tid, thread_cpu_ticks(tid), c.clone()));
                            let o = run_one(&c);
                            *slot.lock().unwrap() = None;
                            evals_total.fetch_add(1, Ordering::Relaxed);
                            let mut st = stats.borrow_mut();
                            st.evaluations += 1;
                            for l in &o.labels {
                                *st.labels.entry(l).or_default() += 1;
                            }
                            if o.nontrivial {
                                st.nontrivial += 1;
                                st.digests.insert(digest(&c));
                                if st.samples.len() < 2 {
                                    if let Ok(v) = serde_json::to_value(&c) {
                                        if v.to_string().len() <= SAMPLE_MAX_BYTES {
                                            st.samples.push(v);
                                        }
                                    }
                                }
                            }
                            match o.verdict {
                                Verdict::Pass => Ok(()),
                                Verdict::Known(id) => {
                                    *st.known.entry(id).or_default() += 1;
                                    Ok(())
                                }
                                Verdict::Inconclusive(w) => {
                                    st.inconclusive += 1;
                                    if st.inconclusive_sample.is_none() {
                                        st.inconclusive_sample = Some(w);
                                    }
                                    Ok(())
                                }
                                Verdict::Violation(s) => {
                                    failed.set(true);
                                    stop.store(true, Ordering::Relaxed);
                                    Err(TestCaseError::fail(s))
                                }
                            }
                        });
                        let fail = match res {
                            Ok(()) => None,
                            Err(TestError::Fail(reason, value)) => Some((value, reason.message().to_string())),
                            Err(TestError::Abort(reason)) => {
                                // generator rejected too much: infrastructure problem
                                eprintln!("proptest aborted in {name}: {}", reason.message());
                                None
                            }
                        };
                        results.lock().unwrap().push((shard, stats.into_inner(), fail));
                    }
                });
            }
        });

        let mut results = results.into_inner().unwrap();
        results.sort_by_key(|r| r.0);
        let mut stats = Stats::default();
        let mut violation = None;
        for (_, st, fail) in results {
            stats.merge(st);
            if violation.is_none() {
                if let Some((c, _)) = fail {
                    // final verdict on the shrunk case
                    let o = run_one(&c);
                    let sig = match o.verdict {
                        Verdict::Violation(s) => s,
                        other => format!("shrunk case no longer fails ({other:?})"),
                    };
                    let path = self.write_replay(name, &c, &sig);
                    println!("VIOLATION property={} replay={}", self.property, path.display());
                    println!("  sub={} signature={}", name, truncate(&sig, 600));
                    violation = Some((sig, path));
                }
            }
        }
        stats.samples.truncate(4);
        self.reports.push(SubReport { name: name.into(), stats, violation, wall_s: t0.elapsed().as_secs_f64(), extra: None });
    }

    /// Replays (a) witnesses of active known findings (prints KNOWN-FINDING lines) and
    /// (b) committed regression cases under /verif/regress/<property>/<sub>-*.json.
    fn run_witnesses<C: DeserializeOwned + Serialize + Debug>(&mut self, name: &str, run_one: &dyn Fn(&C) -> Out) {
        let entries: Vec<KnownEntry> = self.known.entries.clone();
        for e in entries.iter().filter(|e| e.state == "known") {
            for (prop, sub, case) in &e.witnesses {
                if prop != self.property || sub != name {
                    continue;
                }
                let c: C = match serde_json::from_value(case.clone()) {
                    Ok(c) => c,
                    Err(err) => infra(&format!("known finding {} witness does not decode: {err}", e.id)),
                };
                let o = run_one(&c);
                match o.verdict {
                    Verdict::Known(id) if id == e.id => {
                        if self.printed_known.borrow_mut().insert(e.id.clone()) {
                            println!("KNOWN-FINDING: property={} {} {}", self.property, e.id, e.what);
                        }
                    }
                    Verdict::Pass => {
                        println!("KNOWN-FINDING-STALE: property={} {} witness no longer fails", self.property, e.id);
                    }
                    Verdict::Known(id) => {
                        if self.printed_known.borrow_mut().insert(id.clone()) {
                            println!("KNOWN-FINDING: property={} {} (witness of {})", self.property, id, e.id);
                        }
                    }
                    Verdict::Inconclusive(_) => {}
                    Verdict::Violation(sig) => {
                        // the witness fails in a way the predicate of its own finding does not cover
                        let path = self.write_replay(name, &c, &sig);
                        println!("VIOLATION property={} replay={}", self.property, path.display());
                        println!("  sub={} (witness of {}) signature={}", name, e.id, truncate(&sig, 600));
                        self.regress_failed.push((sig, path));
                    }
                }
            }
        }
        let dir = format!("{}/regress/{}", VERIF_ROOT, self.property);
        if let Ok(rd) = std::fs::read_dir(&dir) {
            let mut files: Vec<PathBuf> = rd.filter_map(|e| e.ok().map(|e| e.path())).collect();
            files.sort();
            for p in files {
                let txt = match std::fs::read_to_string(&p) {
                    Ok(t) => t,
                    Err(_) => continue,
                };
                let v: Value = match serde_json::from_str(&txt) {
                    Ok(v) => v,
                    Err(_) => continue,
                };
                if v["sub"].as_str() != Some(name) {
                    continue;
                }
                let c: C = match serde_json::from_value(v["case"].clone()) {
                    Ok(c) => c,
                    Err(err) => infra(&format!("regression case {} does not decode: {err}", p.display())),
                };
                let o = run_one(&c);
                if let Verdict::Violation(sig) = o.verdict {
                    println!("VIOLATION property={} replay={}", self.property, p.display());
                    println!("  sub={} (regression case) signature={}", name, truncate(&sig, 600));
                    self.regress_failed.push((sig, p));
                }
            }
        }
        self.known_lines_done = true;
    }

    fn write_replay<C: Serialize + Debug>(&self, sub: &str, c: &C, sig: &str) -> PathBuf {
        let dir = format!("{}/replays/{}", out_root(), self.property);
        let _ = std::fs::create_dir_all(&dir);
        let case = serde_json::to_value(c).unwrap_or(Value::Null);
        let h = str_hash(&format!("{sub}{case}"));
        let path = PathBuf::from(format!("{dir}/{sub}-{:012x}.json", h & 0xffff_ffff_ffff));
        let doc = json!({
            "property": self.property,
            "sub": sub,
            "seed": self.seed,
            "tier": if self.tier == Tier::Thorough { "thorough" } else { "quick" },
            "signature": sig,
            "case": case,
            "replay_cmd": format!("cd /verif && ./check {} --replay {}", self.property, path.display()),
        });
        let _ = std::fs::write(&path, serde_json::to_string_pretty(&doc).unwrap());
        path
    }

    /// For checks that do part of their work outside proptest subs (multi-build diffs, generated
    /// crates, fuzz campaigns, exhaustive enumerations): account for it explicitly.
    pub fn external(
        &mut self,
        name: &str,
        evaluations: u64,
        distinct_nontrivial: u64,
        labels: BTreeMap<&'static str, u64>,
        samples: Vec<Value>,
        violation: Option<(String, Value)>,
        extra: Option<Value>,
    ) {
        let mut st = Stats::default();
        st.evaluations = evaluations;
        st.nontrivial = distinct_nontrivial;
        // distinctness is measured by the caller; represent it with synthetic digests
        for i in 0..distinct_nontrivial {
            st.digests.insert(mix(str_hash(name), i));
        }
        st.labels = labels;
        st.samples = samples;
        let violation = violation.map(|(sig, case)| {
            // "sub@engine": the replay file names the proptest sub whose oracle re-runs the case
            let path = self.write_replay(name.split('@').next().unwrap_or(name), &case, &sig);
            println!("VIOLATION property={} replay={}", self.property, path.display());
            println!("  sub={} signature={}", name, truncate(&sig, 600));
            (sig, path)
        });
        self.reports.push(SubReport { name: name.into(), stats: st, violation, wall_s: 0.0, extra });
    }

    /// the case of the replay file if it names the sub `name` (subs reported through `external`
    /// replay their own cases and hand the verdict to `replay_verdict`)
    pub fn replay_case(&self, name: &str) -> Option<Value> {
        match &self.replay {
            Some((sub, case)) if sub == name => Some(case.clone()),
            _ => None,
        }
    }

    pub fn replay_verdict(&mut self, name: &str, case: &Value, result: Result<(), String>) {
        self.replay_hit = true;
        let mut st = Stats::default();
        st.evaluations = 1;
        match result {
            Ok(()) => {
                println!("REPLAY property={} sub={} verdict=pass", self.property, name);
                self.reports.push(SubReport { name: name.into(), stats: st, violation: None, wall_s: 0.0, extra: None });
            }
            Err(sig) => {
                println!("REPLAY property={} sub={} verdict=violation {}", self.property, name, sig);
                let path = self.write_replay(name, case, &sig);
                println!("VIOLATION property={} replay={}", self.property, path.display());
                self.reports.push(SubReport { name: name.into(), stats: st, violation: Some((sig, path)), wall_s: 0.0, extra: None });
            }
        }
    }

    pub fn print_known(&self, id: &str) {
        if !self.printed_known.borrow_mut().insert(id.to_string()) {
            return;
        }
        if let Some(e) = self.known.entries.iter().find(|e| e.id == id && e.state == "known") {
            println!("KNOWN-FINDING: property={} {} {}", self.property, e.id, e.what);
        }
    }

    pub fn finish(self) -> ! {
        if self.replay.is_some() {
            if !self.replay_hit {
                infra("replay file names a sub-property this check does not have");
            }
            let bad = self.reports.iter().any(|r| r.violation.is_some());
            std::process::exit(if bad { 1 } else { 0 });
        }
        let mut total = Stats::default();
        let mut subs = serde_json::Map::new();
        let mut violations = self.regress_failed.len() as i64;
        let mut viol_list = Vec::new();
        for (sig, path) in &self.regress_failed {
            viol_list.push(json!({"sub": "(witness/regression replay)", "signature": truncate(sig, 600), "replay": path.display().to_string()}));
        }
        let mut all_samples = Vec::new();
        for r in self.reports {
            let mut o = json!({
                "evaluations": r.stats.evaluations,
                "nontrivial": r.stats.nontrivial,
                "distinct_nontrivial": r.stats.digests.len(),
                "classes": r.stats.labels.iter().map(|(k, v)| (k.to_string(), json!(v))).collect::<serde_json::Map<_, _>>(),
                "wall_s": (r.wall_s * 100.0).round() / 100.0,
            });
            if r.stats.inconclusive > 0 {
                o["inconclusive"] = json!(r.stats.inconclusive);
                o["inconclusive_sample"] = json!(r.stats.inconclusive_sample);
            }
            if let Some(x) = &r.extra {
                o["extra"] = x.clone();
            }
            if let Some((sig, path)) = &r.violation {
                violations += 1;
                viol_list.push(json!({"sub": r.name, "signature": truncate(sig, 600), "replay": path.display().to_string()}));
            }
            for s in r.stats.samples.iter().take(2) {
                all_samples.push(json!({"sub": r.name, "case": s}));
            }
            subs.insert(r.name.clone(), o);
            let mut st = r.stats;
            // make digests distinct across subs
            let salt = str_hash(&r.name);
            st.digests = st.digests.into_iter().map(|d| mix(d, salt)).collect();
            st.samples.clear();
            total.merge(st);
        }
        if all_samples.is_empty() {
            all_samples.push(json!("no non-trivial sample small enough to print"));
        }
        let mut coverage = json!({
            "evaluations": total.evaluations,
            "distinct_nontrivial": total.digests.len(),
            "nontrivial": total.nontrivial,
            "rule": self.rule,
            "samples": all_samples,
            "classes": total.labels.iter().map(|(k, v)| (k.to_string(), json!(v))).collect::<serde_json::Map<_, _>>(),
            "subs": subs,
            "known_findings_hit": total.known,
            "inconclusive": total.inconclusive,
        });
        for (k, v) in self.extra {
            coverage[k] = v;
        }
        let doc = json!({
            "property_id": self.property,
            "tier": if self.tier == Tier::Thorough { "thorough" } else { "quick" },
            "seed": (self.seed & 0x7fff_ffff_ffff_ffff) as i64,
            "level": "exploration",
            "coverage": coverage,
            "assumptions": self.assumptions,
            "wall_s": (self.start.elapsed().as_secs_f64() * 100.0).round() / 100.0,
            "violations": violations,
            "violation_list": viol_list,
        });
        let dir = format!("{}/evidence", out_root());
        let _ = std::fs::create_dir_all(&dir);
        let path = format!("{dir}/{}.json", self.property);
        if let Err(e) = std::fs::write(&path, serde_json::to_string_pretty(&doc).unwrap()) {
            infra(&format!("cannot write evidence {path}: {e}"));
        }
        println!(
            "SUMMARY property={} tier={:?} seed={} evaluations={} distinct_nontrivial={} known_hits={} inconclusive={} violations={} wall_s={:.1}",
            self.property,
            self.tier,
            self.seed,
            total.evaluations,
            total.digests.len(),
            total.known.values().sum::<u64>(),
            total.inconclusive,
            violations,
            self.start.elapsed().as_secs_f64()
        );
        std::process::exit(if violations > 0 { 1 } else { 0 });
    }
}

fn install_thread() {}

// ---- crash handler: a memory fault or an abort inside the library while a case is being
// evaluated becomes a VIOLATION with a replay file (instead of a dead check process)
type CrashHook = std::sync::Arc<dyn Fn(u64, i32) -> bool + Send + Sync>;
static CRASH_HOOK: std::sync::Mutex<Option<CrashHook>> = std::sync::Mutex::new(None);

static CRASH_OWNER: std::sync::atomic::AtomicU64 = std::sync::atomic::AtomicU64::new(0);

extern "C" fn on_crash(sig: libc::c_int) {
    let tid = current_tid().max(1);
    match CRASH_OWNER.compare_exchange(0, tid, Ordering::SeqCst, Ordering::SeqCst) {
        Ok(_) => {}
        // a fault inside this handler: give up
        Err(owner) if owner == tid => unsafe { libc::_exit(2) },
        // another worker crashed at the same time and is reporting: wait for it to end the process
        Err(_) => loop {
            std::thread::sleep(std::time::Duration::from_secs(1));
        },
    }
    let hook = CRASH_HOOK.try_lock().ok().and_then(|g| g.clone());
    let handled = match hook {
        Some(h) => h(tid, sig),
        None => false,
    };
    if !handled {
        println!("INFRA: the check process received signal {sig} outside the evaluation of a case");
    }
    use std::io::Write;
    let _ = std::io::stdout().flush();
    unsafe { libc::_exit(if handled { 1 } else { 2 }) }
}

fn install_crash_handler() {
    static ONCE: std::sync::Once = std::sync::Once::new();
    ONCE.call_once(|| unsafe {
        for sig in [libc::SIGSEGV, libc::SIGBUS, libc::SIGILL, libc::SIGABRT, libc::SIGFPE] {
            let mut sa: libc::sigaction = std::mem::zeroed();
            sa.sa_sigaction = on_crash as usize;
            sa.sa_flags = libc::SA_ONSTACK | libc::SA_NODEFER;
            libc::sigemptyset(&mut sa.sa_mask);
            libc::sigaction(sig, &sa, std::ptr::null_mut());
        }
    });
}

fn signal_name(sig: i32) -> &'static str {
    match sig {
        libc::SIGSEGV => "SIGSEGV",
        libc::SIGBUS => "SIGBUS",
        libc::SIGILL => "SIGILL",
        libc::SIGABRT => "SIGABRT",
        libc::SIGFPE => "SIGFPE",
        _ => "signal",
    }
}

/// kernel thread id of the calling thread (Linux), 0 if unknown
fn current_tid() -> u64 {
    std::fs::read_link("/proc/thread-self").ok().and_then(|p| p.file_name().and_then(|n| n.to_str().and_then(|s| s.parse().ok()))).unwrap_or(0)
}

/// user+system CPU time of a thread of this process in clock ticks (100 per second), 0 if unknown
fn thread_cpu_ticks(tid: u64) -> u64 {
    if tid == 0 {
        return 0;
    }
    let txt = match std::fs::read_to_string(format!("/proc/self/task/{tid}/stat")) {
        Ok(t) => t,
        Err(_) => return 0,
    };
    // fields after the ")" that closes the command name: state is field 3; utime 14, stime 15
    let rest = match txt.rfind(')') {
        Some(i) => &txt[i + 1..],
        None => return 0,
    };
    let f: Vec<&str> = rest.split_whitespace().collect();
    let ut: u64 = f.get(11).and_then(|s| s.parse().ok()).unwrap_or(0);
    let st: u64 = f.get(12).and_then(|s| s.parse().ok()).unwrap_or(0);
    ut + st
}

fn write_replay_file<C: Serialize>(property: &str, seed: u64, tier: Tier, sub: &str, c: &C, sig: &str) -> PathBuf {
    let dir = format!("{}/replays/{}", out_root(), property);
    let _ = std::fs::create_dir_all(&dir);
    let case = serde_json::to_value(c).unwrap_or(Value::Null);
    let h = str_hash(&format!("{sub}{case}"));
    let path = PathBuf::from(format!("{dir}/{sub}-{:012x}.json", h & 0xffff_ffff_ffff));
    let doc = json!({
        "property": property,
        "sub": sub,
        "seed": seed,
        "tier": if tier == Tier::Thorough { "thorough" } else { "quick" },
        "signature": sig,
        "case": case,
        "replay_cmd": format!("cd /verif && ./check {} --replay {}", property, path.display()),
    });
    let _ = std::fs::write(&path, serde_json::to_string_pretty(&doc).unwrap());
    path
}

/// Evidence of a run that the hang watchdog had to abort (the stuck thread cannot be joined).
fn write_abort_evidence<C: Serialize>(property: &str, seed: u64, tier: Tier, sub: &str, evaluations: u64, c: &C, sig: &str, path: &std::path::Path) {
    let doc = json!({
        "property_id": property,
        "tier": if tier == Tier::Thorough { "thorough" } else { "quick" },
        "seed": (seed & 0x7fff_ffff_ffff_ffff) as i64,
        "level": "exploration",
        "coverage": {
            "evaluations": evaluations.max(1),
            "distinct_nontrivial": evaluations.max(2),
            "rule": "run aborted by the hang watchdog in the sub-property named below; counts are the cases completed in that sub-property up to the abort (distinctness not measured for an aborted run)",
            "samples": [{"sub": sub, "case": serde_json::to_value(c).unwrap_or(Value::Null)}],
        },
        "assumptions": ["aborted run"],
        "wall_s": 0.0,
        "violations": 1,
        "violation_list": [{"sub": sub, "signature": sig, "replay": path.display().to_string()}],
    });
    let dir = format!("{}/evidence", out_root());
    let _ = std::fs::create_dir_all(&dir);
    let _ = std::fs::write(format!("{dir}/{property}.json"), serde_json::to_string_pretty(&doc).unwrap());
}

pub fn truncate(s: &str, n: usize) -> String {
    if s.len() <= n {
        s.to_string()
    } else {
        let mut end = n;
        while !s.is_char_boundary(end) {
            end -= 1;
        }
        format!("{}…", &s[..end])
    }
}

/// Generate one value from a strategy with a fixed seed (used by generators of external work).
pub fn sample_strategy<S: Strategy>(s: &S, seed: u64, n: usize) -> Vec<S::Value> {
    let mut seed_bytes = [0u8; 32];
    for k in 0..4 {
        seed_bytes[k * 8..k * 8 + 8].copy_from_slice(&mix(seed, k as u64).to_le_bytes());
    }
    let rng = TestRng::from_seed(RngAlgorithm::ChaCha, &seed_bytes);
    let mut runner = TestRunner::new_with_rng(Config::default(), rng);
    (0..n).map(|_| s.new_tree(&mut runner).expect("strategy").current()).collect()
}

pub fn seed_mix(a: u64, b: u64) -> u64 {
    mix(a, b)
}
pub fn hash_str(s: &str) -> u64 {
    str_hash(s)
}
