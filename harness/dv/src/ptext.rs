//! Reference grammar of the integer text entry points (shared by C07's proptest subs and the
//! coverage-guided target `int_text` of harness/fuzz).
use crate::bridge::{i2n, u2n};
use dashu_base::ParseError;
use dashu_int::{IBig, UBig};
use num_bigint::{BigInt, BigUint};
use serde::{Deserialize, Serialize};
use std::str::FromStr;

/// entry: 0 `FromStr`, 1 `from_str_radix(text, radix)`, 2 `from_str_with_radix_prefix(text)`,
/// 3 `from_str_with_radix_default(text, radix)`
#[derive(Debug, Clone, Hash, Serialize, Deserialize)]
pub struct ParseCase {
    pub text: String,
    pub radix: u32,
    pub entry: u8,
}
pub const ENTRY: [&str; 4] = ["from_str", "from_str_radix", "from_str_with_radix_prefix", "from_str_with_radix_default"];

#[derive(Debug, Clone, PartialEq)]
pub enum Want {
    /// valid text: value and the radix reported by the prefix-aware entry points
    Val(BigInt, u32),
    /// nothing after the optional sign / prefix
    NoDigits,
    /// a character that is neither an underscore nor a digit of the radix
    Invalid,
    /// `from_str_radix` with a radix outside 2..=36
    BadRadix,
    /// non-empty body made of underscores only
    UnderscoreOnly(u32),
    /// `from_str_with_radix_default` with a default radix outside 2..=36 and no prefix in the text
    BadDefault,
}

pub fn digit_val(c: char) -> Option<u32> {
    match c {
        '0'..='9' => Some(c as u32 - '0' as u32),
        'a'..='z' => Some(c as u32 - 'a' as u32 + 10),
        'A'..='Z' => Some(c as u32 - 'A' as u32 + 10),
        _ => None,
    }
}
pub fn radix_ok(r: u32) -> bool {
    (2..=36).contains(&r)
}

/// Reference parser written from the rustdoc of the entry points (parse/mod.rs):
/// UBig: optional `+`; IBig: optional `+` or `-`; the `_with_radix_` entry points then accept one of
/// the prefixes `0b`, `0o`, `0x` ("before the radix prefix" for the sign), otherwise the default
/// radix applies; digits 10-35 are `a-z` or `A-Z`; underscores separate digits (CHANGELOG 0.2.0).
pub fn ref_parse(text: &str, entry: u8, radix: u32, signed: bool) -> Want {
    if entry == 1 && !radix_ok(radix) {
        return Want::BadRadix;
    }
    let mut rest = text;
    let mut neg = false;
    if let Some(t) = rest.strip_prefix('+') {
        rest = t;
    } else if signed {
        if let Some(t) = rest.strip_prefix('-') {
            rest = t;
            neg = true;
        }
    }
    let mut rdx = if entry == 0 || entry == 2 { 10 } else { radix };
    if entry >= 2 {
        for (p, r) in [("0b", 2), ("0o", 8), ("0x", 16)] {
            if let Some(t) = rest.strip_prefix(p) {
                rest = t;
                rdx = r;
                break;
            }
        }
    }
    if !radix_ok(rdx) {
        return Want::BadDefault;
    }
    if rest.is_empty() {
        return Want::NoDigits;
    }
    let mut digits = Vec::with_capacity(rest.len());
    for ch in rest.chars() {
        if ch == '_' {
            continue;
        }
        match digit_val(ch) {
            Some(d) if d < rdx => digits.push(d as u8),
            _ => return Want::Invalid,
        }
    }
    if digits.is_empty() {
        return Want::UnderscoreOnly(rdx);
    }
    let m = BigUint::from_radix_be(&digits, rdx).expect("reference digits");
    Want::Val(if neg { -BigInt::from(m) } else { BigInt::from(m) }, rdx)
}


/// Byte-coded parse case for the fuzz target: byte 0 = entry (2 bits) and radix class, byte 1 =
/// radix, the rest is the text (lossy UTF-8, so that non-ASCII text is reachable too).
pub fn decode_parse_case(data: &[u8]) -> ParseCase {
    let b0 = data.first().copied().unwrap_or(0);
    let b1 = data.get(1).copied().unwrap_or(10);
    let entry = b0 & 3;
    let radix = match (b0 >> 2) & 3 {
        0 => 2 + (b1 as u32 % 35),            // valid radix
        1 => [10u32, 16, 2, 8, 36, 3, 7, 32][(b1 & 7) as usize],
        2 => b1 as u32,                        // 0..255: mostly invalid
        _ => [0u32, 1, 37, u32::MAX, 1 << 31, 64, 256, 100][(b1 & 7) as usize],
    };
    let text = String::from_utf8_lossy(data.get(2..).unwrap_or(&[])).into_owned();
    ParseCase { text, radix, entry }
}

/// Finder used inside the fuzz target: `Some(reason)` when dashu's answer differs from the
/// reference grammar. The two recorded findings of C07 (underscore-only text read as 0, invalid
/// default radix reaching a debug assertion) are excluded by construction so that a campaign
/// continues past them. The verdict on an artifact is C07's `parse_oracle`, not this function.
pub fn parse_disagreement(c: &ParseCase) -> Option<String> {
    let t = c.text.as_str();
    for signed in [false, true] {
        let want = ref_parse(t, c.entry, c.radix, signed);
        if matches!(want, Want::BadDefault | Want::UnderscoreOnly(_)) {
            continue;
        }
        let implied = if c.entry == 0 { 10 } else { c.radix };
        let got: Result<(BigInt, u32), ParseError> = if signed {
            match c.entry {
                0 => IBig::from_str(t).map(|v| (i2n(&v), implied)),
                1 => IBig::from_str_radix(t, c.radix).map(|v| (i2n(&v), implied)),
                2 => IBig::from_str_with_radix_prefix(t).map(|(v, r)| (i2n(&v), r)),
                _ => IBig::from_str_with_radix_default(t, c.radix).map(|(v, r)| (i2n(&v), r)),
            }
        } else {
            match c.entry {
                0 => UBig::from_str(t).map(|v| (BigInt::from(u2n(&v)), implied)),
                1 => UBig::from_str_radix(t, c.radix).map(|v| (BigInt::from(u2n(&v)), implied)),
                2 => UBig::from_str_with_radix_prefix(t).map(|(v, r)| (BigInt::from(u2n(&v)), r)),
                _ => UBig::from_str_with_radix_default(t, c.radix).map(|(v, r)| (BigInt::from(u2n(&v)), r)),
            }
        };
        match (&want, &got) {
            (Want::Val(v, r), Ok((g, gr))) if g == v && gr == r => {}
            (Want::Val(..), Err(ParseError::UnsupportedRadix)) if c.entry == 3 && !radix_ok(c.radix) => {}
            (Want::Val(..), _) => return Some(format!("valid text: want {want:?}, got {got:?}")),
            (Want::NoDigits, Err(ParseError::NoDigits)) => {}
            (Want::Invalid | Want::BadRadix, Err(_)) => {}
            _ => return Some(format!("malformed text: want {want:?}, got {got:?}")),
        }
    }
    None
}
