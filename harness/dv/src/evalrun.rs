//! Building and running `dv-eval` (harness/eval) against a given build configuration of dashu.
//! Shared by C12 (log2 bounds in the std and no_std builds); C19 has its own richer copy.
use std::process::Command;

pub fn harness_dir() -> String {
    std::env::var("DV_HARNESS").unwrap_or_else(|_| "/verif/harness".to_string())
}

/// Returns the path of the evaluator binary for the configuration.
pub fn build(name: &str, force_bits: Option<&str>, std_feature: bool, assertions: bool) -> Result<String, String> {
    let target = format!("{}/{}", std::env::var("DV_EVAL_TARGET").unwrap_or_else(|_| if std::env::var("DV_HARNESS").is_ok() { "/verif/target/c19-mut".to_string() } else { "/verif/target/c19".to_string() }), name);
    let mut rustflags = String::from("--cfg dashu_verif");
    if let Some(b) = force_bits {
        rustflags.push_str(&format!(" --cfg force_bits=\"{b}\""));
    }
    let mut cmd = Command::new("cargo");
    cmd.args(["build", "--release", "--manifest-path"]).arg(format!("{}/eval/Cargo.toml", harness_dir())).arg("--target-dir").arg(&target);
    if !std_feature {
        cmd.arg("--no-default-features");
    }
    cmd.env("RUSTFLAGS", rustflags).env("CARGO_NET_OFFLINE", "true").env("CARGO_TERM_COLOR", "never");
    if !assertions {
        cmd.env("CARGO_PROFILE_RELEASE_DEBUG_ASSERTIONS", "false").env("CARGO_PROFILE_RELEASE_OVERFLOW_CHECKS", "false");
    }
    let out = cmd.output().map_err(|e| format!("cargo: {e}"))?;
    if !out.status.success() {
        let err = String::from_utf8_lossy(&out.stderr);
        let lines: Vec<&str> = err.lines().filter(|l| l.starts_with("error")).take(5).collect();
        return Err(format!("build of configuration {name} failed: {}", lines.join(" | ")));
    }
    Ok(format!("{target}/release/dv-eval"))
}

/// Runs the evaluator on the given case lines; returns one answer per line.
pub fn run(bin: &str, lines: &[String], tag: &str) -> Result<Vec<String>, String> {
    let dir = format!("{}/target/evalrun", std::env::var("DV_OUT").unwrap_or_else(|_| "/verif".to_string()));
    let _ = std::fs::create_dir_all(&dir);
    let file = format!("{dir}/cases-{tag}.txt");
    std::fs::write(&file, lines.iter().map(|l| format!("{l}\n")).collect::<String>()).map_err(|e| e.to_string())?;
    let out = Command::new(bin).arg(&file).output().map_err(|e| format!("{bin}: {e}"))?;
    if !out.status.success() {
        return Err(format!("{bin} ended with {:?}", out.status.code()));
    }
    let text = String::from_utf8_lossy(&out.stdout);
    let v: Vec<String> = text.lines().skip(1).map(|l| l.splitn(2, ' ').nth(1).unwrap_or("").to_string()).collect();
    if v.len() != lines.len() {
        return Err(format!("evaluator answered {} lines for {} cases", v.len(), lines.len()));
    }
    Ok(v)
}
