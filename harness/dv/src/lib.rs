pub mod bridge;
pub mod core;
pub mod gen;

pub use crate::bridge::*;
pub use crate::core::*;
pub mod fl;
pub mod ball;
pub mod vm;
pub mod evalrun;
pub mod nb;
pub mod ptext;
