//! Exact oracle for dashu-float results: numbers of the form n/d · B^e compared by cross
//! multiplication (integer arithmetic only, no floating point anywhere), and the six-clause
//! rounding contract of DESIGN.md §C03.

use crate::bridge::{i2n, n2i, Int};
use crate::core::Out;
use dashu_base::Approximation;
use dashu_float::round::{mode, Round, Rounded, Rounding};
use dashu_float::{Context, FBig, Repr};
use dashu_int::Word;
use num_bigint::{BigInt, BigUint, Sign};
use num_integer::{Integer, Roots};
use num_rational::BigRational;
use num_traits::{One, Pow, Signed, Zero};
use serde::{Deserialize, Serialize};
use std::cmp::Ordering;

#[derive(Clone, Copy, Debug, PartialEq, Eq, Hash, Serialize, Deserialize)]
pub enum Mode {
    Zero,
    Away,
    Up,
    Down,
    HalfEven,
    HalfAway,
}

impl Mode {
    pub fn is_half(self) -> bool {
        matches!(self, Mode::HalfEven | Mode::HalfAway)
    }
    pub fn name(self) -> &'static str {
        match self {
            Mode::Zero => "Zero",
            Mode::Away => "Away",
            Mode::Up => "Up",
            Mode::Down => "Down",
            Mode::HalfEven => "HalfEven",
            Mode::HalfAway => "HalfAway",
        }
    }
}

pub trait ModeTag: Round + 'static {
    const MODE: Mode;
}
impl ModeTag for mode::Zero {
    const MODE: Mode = Mode::Zero;
}
impl ModeTag for mode::Away {
    const MODE: Mode = Mode::Away;
}
impl ModeTag for mode::Up {
    const MODE: Mode = Mode::Up;
}
impl ModeTag for mode::Down {
    const MODE: Mode = Mode::Down;
}
impl ModeTag for mode::HalfEven {
    const MODE: Mode = Mode::HalfEven;
}
impl ModeTag for mode::HalfAway {
    const MODE: Mode = Mode::HalfAway;
}

pub fn bpow(base: u64, k: u64) -> BigUint {
    Pow::pow(BigUint::from(base), k)
}

/// number of base-`base` digits of n (0 for 0)
pub fn digits(n: &BigUint, base: u64) -> u64 {
    if n.is_zero() {
        return 0;
    }
    if base.is_power_of_two() {
        let k = base.trailing_zeros() as u64;
        return (n.bits() + k - 1) / k;
    }
    // estimate from the bit length, then correct exactly
    let est = ((n.bits() as f64 - 1.0) * (2f64.ln() / (base as f64).ln())).floor() as u64;
    let mut d = est.saturating_sub(1);
    let mut pw = bpow(base, d);
    // invariant target: base^(d-1) <= n < base^d
    while &pw <= n {
        pw *= base;
        d += 1;
    }
    d
}

/// n/d · base^e, d > 0, not necessarily reduced
#[derive(Clone, Debug)]
pub struct Sci {
    pub n: BigInt,
    pub d: BigUint,
    pub e: i64,
    pub base: u64,
}

impl Sci {
    pub fn new(n: BigInt, e: i64, base: u64) -> Sci {
        Sci { n, d: BigUint::one(), e, base }
    }
    pub fn zero(base: u64) -> Sci {
        Sci::new(BigInt::zero(), 0, base)
    }
    pub fn from_repr<const B: Word>(r: &Repr<B>) -> Option<Sci> {
        if r.is_infinite() {
            return None;
        }
        Some(Sci::new(i2n(r.significand()), r.exponent() as i64, B as u64))
    }
    pub fn is_zero(&self) -> bool {
        self.n.is_zero()
    }
    pub fn signum(&self) -> i32 {
        match self.n.sign() {
            Sign::Minus => -1,
            Sign::NoSign => 0,
            Sign::Plus => 1,
        }
    }
    pub fn neg(&self) -> Sci {
        Sci { n: -&self.n, d: self.d.clone(), e: self.e, base: self.base }
    }
    pub fn abs(&self) -> Sci {
        Sci { n: self.n.abs(), d: self.d.clone(), e: self.e, base: self.base }
    }
    /// (numerator, denominator) as plain integers: self = num/den
    pub fn num_den(&self) -> (BigInt, BigUint) {
        if self.e >= 0 {
            (&self.n * BigInt::from(bpow(self.base, self.e as u64)), self.d.clone())
        } else {
            (self.n.clone(), &self.d * bpow(self.base, (-self.e) as u64))
        }
    }
    pub fn to_rational(&self) -> BigRational {
        let (n, d) = self.num_den();
        BigRational::new(n, BigInt::from(d))
    }
    pub fn from_rational(q: &BigRational, base: u64) -> Sci {
        Sci { n: q.numer().clone(), d: q.denom().magnitude().clone(), e: 0, base }
    }
    pub fn cmp(&self, o: &Sci) -> Ordering {
        debug_assert_eq!(self.base, o.base);
        let (sa, sb) = (self.signum(), o.signum());
        if sa != sb {
            return sa.cmp(&sb);
        }
        if sa == 0 {
            return Ordering::Equal;
        }
        if (self.e as i128 - o.e as i128).abs() > 4096 {
            // exponents far apart: decide from rigorous bounds on log2 |value| where they separate,
            // so that B^|Δe| is only spelled out for values of about the same magnitude
            let l2 = (self.base as f64).log2();
            let (lo_b, hi_b) = (l2 * (1.0 - 1e-12), l2 * (1.0 + 1e-12));
            let bounds = |v: &Sci| -> (f64, f64) {
                let (nb, db) = (v.n.bits() as f64, v.d.bits() as f64);
                let (elo, ehi) = if v.e >= 0 { (v.e as f64 * lo_b, v.e as f64 * hi_b) } else { (v.e as f64 * hi_b, v.e as f64 * lo_b) };
                (nb - 1.0 - db + elo - 1.0, nb - (db - 1.0) + ehi + 1.0)
            };
            let (a, b) = (bounds(self), bounds(o));
            if a.0 > b.1 {
                return if sa > 0 { Ordering::Greater } else { Ordering::Less };
            }
            if a.1 < b.0 {
                return if sa > 0 { Ordering::Less } else { Ordering::Greater };
            }
        }
        let m = self.e.min(o.e);
        let l = &self.n * BigInt::from(&o.d * bpow(self.base, (self.e - m) as u64));
        let r = &o.n * BigInt::from(&self.d * bpow(self.base, (o.e - m) as u64));
        l.cmp(&r)
    }
    pub fn add(&self, o: &Sci) -> Sci {
        let m = self.e.min(o.e);
        let l = &self.n * BigInt::from(&o.d * bpow(self.base, (self.e - m) as u64));
        let r = &o.n * BigInt::from(&self.d * bpow(self.base, (o.e - m) as u64));
        Sci { n: l + r, d: &self.d * &o.d, e: m, base: self.base }
    }
    pub fn sub(&self, o: &Sci) -> Sci {
        self.add(&o.neg())
    }
    pub fn mul(&self, o: &Sci) -> Sci {
        Sci { n: &self.n * &o.n, d: &self.d * &o.d, e: self.e + o.e, base: self.base }
    }
    /// self / o, o != 0
    pub fn div(&self, o: &Sci) -> Sci {
        let mut n = &self.n * BigInt::from(o.d.clone());
        let d = &self.d * o.n.magnitude();
        if o.n.is_negative() {
            n = -n;
        }
        Sci { n, d, e: self.e - o.e, base: self.base }
    }
    /// base^k
    pub fn unit(base: u64, k: i64) -> Sci {
        Sci::new(BigInt::one(), k, base)
    }
    /// e with base^e <= |self| < base^(e+1); self != 0
    pub fn floor_log(&self) -> i64 {
        assert!(!self.is_zero());
        let a = self.abs();
        let lb = (self.base as f64).log2();
        let est = ((a.n.bits() as f64 - a.d.bits() as f64) / lb).floor() as i64 + a.e;
        let mut e = est - 2;
        // move up while base^(e+1) <= |self|
        while Sci::unit(self.base, e + 1).cmp(&a) != Ordering::Greater {
            e += 1;
        }
        while Sci::unit(self.base, e).cmp(&a) == Ordering::Greater {
            e -= 1;
        }
        e
    }
    /// is self·base^(-k) an integer?
    pub fn is_multiple_of_unit(&self, k: i64) -> bool {
        let sh = self.e - k;
        if sh >= 0 {
            (&self.n * BigInt::from(bpow(self.base, sh as u64))).is_multiple_of(&BigInt::from(self.d.clone()))
        } else {
            self.n.is_multiple_of(&BigInt::from(&self.d * bpow(self.base, (-sh) as u64)))
        }
    }
    pub fn show(&self) -> String {
        let n = self.n.to_string();
        let n = if n.len() > 60 { format!("{}..{}[{} digits]", &n[..20], &n[n.len() - 10..], n.len()) } else { n };
        if self.d.is_one() {
            format!("{}·{}^{}", n, self.base, self.e)
        } else {
            let d = self.d.to_string();
            let d = if d.len() > 60 { format!("{}..[{} digits]", &d[..20], d.len()) } else { d };
            format!("({}/{})·{}^{}", n, d, self.base, self.e)
        }
    }
}

/// The true real result: a rational, or the (irrational) square root of a positive rational.
#[derive(Clone, Debug)]
pub enum Truth {
    Val(Sci),
    Sqrt(Sci),
}

impl Truth {
    /// sqrt(a) for a >= 0: rational when a is a rational square
    pub fn sqrt_of(a: &Sci) -> Truth {
        if a.is_zero() {
            return Truth::Val(Sci::zero(a.base));
        }
        let q = a.to_rational();
        let (n, d) = (q.numer().magnitude().clone(), q.denom().magnitude().clone());
        let (rn, rd) = (n.sqrt(), d.sqrt());
        if &rn * &rn == n && &rd * &rd == d {
            Truth::Val(Sci { n: BigInt::from(rn), d: rd, e: 0, base: a.base })
        } else {
            Truth::Sqrt(a.clone())
        }
    }
    pub fn is_zero(&self) -> bool {
        matches!(self, Truth::Val(v) if v.is_zero())
    }
    pub fn signum(&self) -> i32 {
        match self {
            Truth::Val(v) => v.signum(),
            Truth::Sqrt(_) => 1,
        }
    }
    /// compare the true value with q
    pub fn cmp(&self, q: &Sci) -> Ordering {
        match self {
            Truth::Val(v) => v.cmp(q),
            Truth::Sqrt(a) => {
                if q.signum() <= 0 {
                    Ordering::Greater
                } else {
                    a.cmp(&q.mul(q))
                }
            }
        }
    }
    pub fn floor_log(&self) -> i64 {
        match self {
            Truth::Val(v) => v.floor_log(),
            Truth::Sqrt(a) => {
                let base = a.base;
                let mut e = a.floor_log().div_euclid(2) - 1;
                while self.cmp(&Sci::unit(base, e + 1)) != Ordering::Less {
                    e += 1;
                }
                e
            }
        }
    }
    /// representable with at most p significant digits?
    pub fn representable(&self, p: u64) -> bool {
        match self {
            Truth::Val(v) => v.is_zero() || v.is_multiple_of_unit(v.floor_log() - p as i64 + 1),
            Truth::Sqrt(_) => false,
        }
    }
    pub fn show(&self) -> String {
        match self {
            Truth::Val(v) => v.show(),
            Truth::Sqrt(a) => format!("sqrt({})", a.show()),
        }
    }
}

/// What dashu returned, in oracle terms.
#[derive(Clone, Debug)]
pub struct Res {
    pub val: Sci,
    /// magnitude of the stored (normalised) significand
    pub sig: BigUint,
    /// None = flagged Exact
    pub flag: Option<Rounding>,
    pub precision: usize,
}

pub fn res_of<R: Round, const B: Word>(r: &Rounded<FBig<R, B>>) -> Result<Res, String> {
    let (f, flag) = match r {
        Approximation::Exact(f) => (f, None),
        Approximation::Inexact(f, r) => (f, Some(*r)),
    };
    let val = Sci::from_repr(f.repr()).ok_or_else(|| "result is infinite".to_string())?;
    Ok(Res { sig: val.n.magnitude().clone(), val, flag, precision: f.precision() })
}

#[derive(Clone, Debug)]
pub struct Broken {
    pub clause: &'static str,
    pub msg: String,
}

/// The six clauses of the rounding contract at precision p (p >= 1). Returns every broken clause.
pub fn contract(x: &Truth, r: &Res, p: u64, mode: Mode) -> Vec<Broken> {
    let mut v = Vec::new();
    let base = r.val.base;
    let ord = x.cmp(&r.val); // x ? r
    let mut bad = |clause: &'static str, msg: String| v.push(Broken { clause, msg });
    // 1. Exact <=> r = x
    match (r.flag, ord) {
        (None, Ordering::Equal) => {}
        (None, _) => bad("exact-flag", "flagged Exact but result differs from the true value".into()),
        (Some(f), Ordering::Equal) => bad("exact-flag", format!("flagged Inexact({f:?}) but result equals the true value")),
        _ => {}
    }
    // 2. at most p+1 significant digits
    if r.sig >= bpow(base, p + 1) {
        bad("digits", format!("result has {} significant digits > p+1 = {}", digits(&r.sig, base), p + 1));
    }
    // 3. representable => exact value
    if x.representable(p) && ord != Ordering::Equal {
        bad("representable", "true value is representable in p digits but a different value was returned".into());
    }
    if !x.is_zero() {
        // 4. |r - x| < ulp (<= ulp/2 for the half modes), ulp from the true value's binade
        let e = x.floor_log();
        let ulp = Sci::unit(base, e - p as i64 + 1);
        if mode.is_half() {
            let half = Sci { n: BigInt::one(), d: BigUint::from(2u8), e: e - p as i64 + 1, base };
            let lo = r.val.sub(&half);
            let hi = r.val.add(&half);
            if x.cmp(&lo) == Ordering::Less || x.cmp(&hi) == Ordering::Greater {
                bad("error-bound", "|result - true| > 1/2 ulp".into());
            }
        } else {
            let lo = r.val.sub(&ulp);
            let hi = r.val.add(&ulp);
            if x.cmp(&lo) != Ordering::Greater || x.cmp(&hi) != Ordering::Less {
                bad("error-bound", "|result - true| >= 1 ulp".into());
            }
        }
        // 5. side prescribed by the directed modes
        let side_ok = match mode {
            Mode::Zero => {
                // |r| <= |x| and same sign (or r = 0)
                if x.signum() > 0 {
                    ord != Ordering::Less && r.val.signum() >= 0
                } else {
                    ord != Ordering::Greater && r.val.signum() <= 0
                }
            }
            Mode::Away => {
                if x.signum() > 0 {
                    ord != Ordering::Greater
                } else {
                    ord != Ordering::Less
                }
            }
            Mode::Up => ord != Ordering::Greater,   // x <= r
            Mode::Down => ord != Ordering::Less, // x >= r
            _ => true,
        };
        if !side_ok {
            bad("side", format!("result lies on the wrong side of the true value for mode {}", mode.name()));
        }
    }
    // 6. AddOne => r > x, SubOne => r < x
    match r.flag {
        Some(Rounding::AddOne) if ord != Ordering::Less => bad("flag-direction", "AddOne but result <= true value".into()),
        Some(Rounding::SubOne) if ord != Ordering::Greater => bad("flag-direction", "SubOne but result >= true value".into()),
        _ => {}
    }
    v
}

pub fn report(out: &mut Out, what: &str, x: &Truth, r: &Res, p: u64, mode: Mode, broken: &[Broken]) {
    if let Some(b) = broken.first() {
        let all: Vec<&str> = broken.iter().map(|b| b.clause).collect();
        out.fail(format!(
            "{what} (base {}, {}, p={p}): {} [{}]; true = {}, got = {} flag = {:?}",
            r.val.base,
            mode.name(),
            b.msg,
            all.join(","),
            x.show(),
            r.val.show(),
            r.flag
        ));
    }
}

// ---------------------------------------------------------------------------------------------
// plain-data float operands

#[derive(Clone, Debug, PartialEq, Eq, Hash, Serialize, Deserialize)]
pub struct Fl {
    pub sig: Int,
    pub exp: i64,
}

impl Fl {
    pub fn repr<const B: Word>(&self) -> Repr<B> {
        Repr::<B>::new(self.sig.ibig(), self.exp as isize)
    }
    pub fn sci(&self, base: u64) -> Sci {
        Sci::new(self.sig.big(), self.exp, base)
    }
    pub fn fbig<R: Round, const B: Word>(&self, precision: usize) -> FBig<R, B> {
        FBig::from_repr(self.repr::<B>(), Context::<R>::new(precision))
    }
    /// strip trailing base-B zeros of the significand into the exponent
    pub fn normalised(&self, base: u64) -> Fl {
        let mut m = self.sig.mag.big();
        if m.is_zero() {
            return Fl { sig: Int::default(), exp: 0 };
        }
        let b = BigUint::from(base);
        let mut e = self.exp;
        while (&m % &b).is_zero() {
            m /= &b;
            e += 1;
        }
        Fl { sig: Int { neg: self.sig.neg, mag: crate::bridge::Nat::from_big(&m) }, exp: e }
    }
    pub fn digits(&self, base: u64) -> u64 {
        // digits of the normalised significand
        let mut m = self.sig.mag.big();
        if m.is_zero() {
            return 0;
        }
        let b = BigUint::from(base);
        while (&m % &b).is_zero() {
            m /= &b;
        }
        digits(&m, base)
    }
}

pub fn fl_from(n: &BigInt, exp: i64) -> Fl {
    Fl { sig: Int::from_big(n), exp }
}

/// deterministic significand with exactly k base-B digits (k >= 1) from (pattern, seed)
pub fn sig_pattern(base: u64, k: u64, pattern: u8, seed: u64) -> BigUint {
    let hi = bpow(base, k);
    let lo = bpow(base, k - 1);
    let mut r = crate::gen::SplitMix(seed);
    let v = match pattern % 9 {
        0 => lo.clone(),                                    // 1 0...0
        2 if seed % 3 != 2 => {
            // just below / just above one half of B^k: (B/2-1)(B-1)..(B-1) resp. (B/2)0..01 in an even
            // base, ((B-1)/2) repeated (+1) in an odd base — near-ties when this operand becomes the
            // discarded low part
            let below = if base % 2 == 0 { &lo * BigUint::from(base / 2) - BigUint::one() } else { (&hi - BigUint::one()) / BigUint::from(2u8) };
            if seed % 3 == 0 {
                below
            } else {
                below + BigUint::from(if base % 2 == 0 { 2u8 } else { 1u8 })
            }
        }
        1 | 2 => {
            // random k digits
            let words = (hi.bits() / 64 + 2) as usize;
            let raw = crate::bridge::words_to_big(&(0..words).map(|_| r.next()).collect::<Vec<_>>());
            &lo + raw % (&hi - &lo)
        }
        3 => &hi - BigUint::one(),                           // all B-1
        4 => &lo + BigUint::one(),                           // 1 0...0 1
        5 => &lo * BigUint::from((base / 2).max(1)),         // half: (B/2) 0...0
        6 => &hi - BigUint::from(1 + r.below(base.min(5))), // B^k - small
        7 => {
            // random, but with trailing zeros (fewer effective digits)
            let words = (hi.bits() / 64 + 2) as usize;
            let raw = crate::bridge::words_to_big(&(0..words).map(|_| r.next()).collect::<Vec<_>>());
            let z = r.below(k) as u64;
            let t = &lo + raw % (&hi - &lo);
            let pz = bpow(base, z);
            (&t / &pz) * pz
        }
        _ => &lo * BigUint::from(1 + r.below(base - 1)),    // single leading digit
    };
    if v.is_zero() || v >= hi {
        lo
    } else {
        v
    }
}

pub fn ibig_of(n: &BigInt) -> dashu_int::IBig {
    n2i(n)
}

/// Correct rounding of a rational to an integer under `mode` (definition of the six modes).
pub fn round_rational(q: &BigRational, mode: Mode) -> BigInt {
    let fl = q.floor().to_integer();
    if q.is_integer() {
        return fl;
    }
    let ce = &fl + BigInt::one();
    match mode {
        Mode::Down => fl,
        Mode::Up => ce,
        Mode::Zero => {
            if q.is_negative() {
                ce
            } else {
                fl
            }
        }
        Mode::Away => {
            if q.is_negative() {
                fl
            } else {
                ce
            }
        }
        Mode::HalfEven | Mode::HalfAway => {
            let two = BigInt::from(2);
            let twice = q * BigRational::from_integer(two.clone());
            let mid = BigRational::from_integer(&fl + &ce);
            match twice.cmp(&mid) {
                Ordering::Less => fl,
                Ordering::Greater => ce,
                Ordering::Equal => {
                    if mode == Mode::HalfEven {
                        if fl.is_even() {
                            fl
                        } else {
                            ce
                        }
                    } else if q.is_negative() {
                        fl
                    } else {
                        ce
                    }
                }
            }
        }
    }
}
