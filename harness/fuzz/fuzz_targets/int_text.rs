#![no_main]
//! Byte-coded text for the four integer parse entry points (C07), under ASan, coverage-guided.
//! Finder: dv::ptext::parse_disagreement (reference grammar written from the rustdoc); the verdict
//! on an artifact is given by C07's parse oracle, which replays the decoded case.
use libfuzzer_sys::fuzz_target;

fuzz_target!(|data: &[u8]| {
    let c = dv::ptext::decode_parse_case(data);
    if let Some(why) = dv::ptext::parse_disagreement(&c) {
        eprintln!("TEXT-DISAGREEMENT {why}");
        panic!("TEXT-DISAGREEMENT");
    }
});
