#![no_main]
//! Byte-coded operation histories over a pool of integers (C17), under ASan.
//! The semantic oracle (model equality + storage invariants) is inside the target.
use libfuzzer_sys::fuzz_target;

fuzz_target!(|data: &[u8]| {
    let (init, ops) = dv::vm::decode(data);
    if let Err(e) = dv::vm::run(&init, &ops) {
        eprintln!("VM-VIOLATION {e}");
        panic!("VM-VIOLATION {e}");
    }
});
