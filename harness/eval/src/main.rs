//! dv-eval: evaluates a deterministic case file with the dashu build it was compiled against.
//! Line format:  <op> <arg>...   (integers: [-]hex, small numbers: decimal, blobs: hex bytes)
//! Output:       <index> <canonical result>   ("PANIC" when the call panicked)
use dashu_base::{
    Approximation, BitTest, DivRem, EstimatedLog2, ExtendedGcd, Gcd, Sign, SquareRoot, UnsignedAbs,
};
use dashu_float::{round::mode, Context, FBig, Repr};
use dashu_int::{fast_div::ConstDivisor, IBig, UBig};
use dashu_ratio::{RBig, Relaxed};
use std::io::{BufRead, Write};
use std::panic::{catch_unwind, AssertUnwindSafe};
use std::str::FromStr;

fn unhex(s: &str) -> Vec<u8> {
    let s = s.as_bytes();
    let mut v = Vec::with_capacity(s.len() / 2);
    let mut i = 0;
    while i + 1 < s.len() {
        let h = (s[i] as char).to_digit(16).unwrap() as u8;
        let l = (s[i + 1] as char).to_digit(16).unwrap() as u8;
        v.push(h << 4 | l);
        i += 2;
    }
    v
}
fn hex(b: &[u8]) -> String {
    let mut s = String::with_capacity(b.len() * 2);
    for x in b {
        s.push_str(&format!("{x:02x}"));
    }
    if s.is_empty() {
        s.push('-');
    }
    s
}
/// [-]hex (big endian, even or odd number of digits) -> IBig, through bytes only
fn int(s: &str) -> IBig {
    let (neg, h) = match s.strip_prefix('-') {
        Some(r) => (true, r),
        None => (false, s),
    };
    let padded = if h.len() % 2 == 1 { format!("0{h}") } else { h.to_string() };
    let u = UBig::from_be_bytes(&unhex(&padded));
    IBig::from_parts(if neg { Sign::Negative } else { Sign::Positive }, u)
}
fn uint(s: &str) -> UBig {
    int(s).unsigned_abs()
}
fn show_u(u: &UBig) -> String {
    let b = u.to_be_bytes();
    if b.is_empty() {
        "0".into()
    } else {
        let h = hex(&b);
        h.trim_start_matches('0').to_string()
    }
}
fn show_i(i: &IBig) -> String {
    let (s, m) = i.clone().into_parts();
    format!("{}{}", if s == Sign::Negative { "-" } else { "" }, show_u(&m))
}
fn repr_info(i: &IBig) -> String {
    #[cfg(dashu_verif)]
    {
        let (cap, len, inline, words) = i.__verif_repr();
        let top_zero = !inline && words.last().map(|w| *w == 0).unwrap_or(false);
        let hi_zero = inline && words[1] == 0;
        format!("cap={cap},len={len},inline={inline},topzero={top_zero},hizero={hi_zero},wbits={}", dashu_int::Word::BITS)
    }
    #[cfg(not(dashu_verif))]
    {
        let _ = i;
        "nohook".to_string()
    }
}
fn flag<T>(a: &Approximation<T, dashu_float::round::Rounding>) -> &'static str {
    match a {
        Approximation::Exact(_) => "exact",
        Approximation::Inexact(_, dashu_float::round::Rounding::NoOp) => "noop",
        Approximation::Inexact(_, dashu_float::round::Rounding::AddOne) => "addone",
        Approximation::Inexact(_, dashu_float::round::Rounding::SubOne) => "subone",
    }
}
fn show_repr<const B: dashu_int::Word>(r: &Repr<B>) -> String {
    if r.is_infinite() {
        return format!("inf{}", if r.sign() == Sign::Negative { "-" } else { "+" });
    }
    format!("{}e{}", show_i(r.significand()), r.exponent())
}
type D = FBig<mode::HalfEven, 10>;
type F = FBig<mode::Zero, 2>;
fn dec(sig: &str, exp: &str, p: &str) -> D {
    D::from_repr(Repr::new(int(sig), exp.parse().unwrap()), Context::new(p.parse().unwrap()))
}
fn bin(sig: &str, exp: &str, p: &str) -> F {
    F::from_repr(Repr::new(int(sig), exp.parse().unwrap()), Context::new(p.parse().unwrap()))
}
fn rat(n: &str, d: &str) -> RBig {
    RBig::from_parts(int(n), uint(d))
}
fn show_r(r: &RBig) -> String {
    format!("{}/{}", show_i(r.numerator()), show_u(r.denominator()))
}
fn show_f<R: dashu_float::round::Round, const B: dashu_int::Word>(f: &FBig<R, B>) -> String {
    format!("{} p{}", show_repr(f.repr()), f.precision())
}

fn eval(a: &[&str]) -> String {
    let n = |i: usize| -> usize { a[i].parse().unwrap() };
    match a[0] {
        // ---------------- integers
        "iadd" => show_i(&(int(a[1]) + int(a[2]))),
        "isub" => show_i(&(int(a[1]) - int(a[2]))),
        "imul" => show_i(&(int(a[1]) * int(a[2]))),
        "idivrem" => {
            let (q, r) = int(a[1]).div_rem(int(a[2]));
            format!("{} {}", show_i(&q), show_i(&r))
        }
        "igcd" => show_u(&int(a[1]).gcd(int(a[2]))),
        "igcdext" => {
            let (g, s, t) = int(a[1]).gcd_ext(int(a[2]));
            // coefficients are not unique: print g and the value of the combination
            let comb = int(a[1]) * s + int(a[2]) * t;
            format!("{} {}", show_u(&g), show_i(&comb))
        }
        "iand" => show_i(&(int(a[1]) & int(a[2]))),
        "ior" => show_i(&(int(a[1]) | int(a[2]))),
        "ixor" => show_i(&(int(a[1]) ^ int(a[2]))),
        "ishl" => show_i(&(int(a[1]) << n(2))),
        "ishr" => show_i(&(int(a[1]) >> n(2))),
        "ipow" => show_i(&int(a[1]).pow(n(2))),
        "isqrt" => show_u(&uint(a[1]).sqrt()),
        "iroot" => show_u(&uint(a[1]).nth_root(n(2))),
        "ilog" => format!("{}", uint(a[1]).ilog(&uint(a[2]))),
        "istr" => format!("{}", int(a[1]).in_radix(n(2) as u32)),
        "iparse" => match IBig::from_str_radix(std::str::from_utf8(&unhex(a[1])).unwrap_or("\u{fffd}"), n(2) as u32) {
            Ok(v) => show_i(&v),
            Err(_) => "ERR".into(),
        },
        "ibytes" => {
            let x = int(a[1]);
            format!("{} {}", hex(&x.to_le_bytes()), hex(&x.to_be_bytes()))
        }
        "ifrombytes" => {
            let b = unhex(a[1]);
            format!("{} {} {}", show_i(&IBig::from_le_bytes(&b)), show_i(&IBig::from_be_bytes(&b)), show_u(&UBig::from_le_bytes(&b)))
        }
        "if64" => {
            let r = int(a[1]).to_f64();
            format!("{:016x} {}", r.value().to_bits(), matches!(r, Approximation::Exact(_)))
        }
        "if32" => {
            let r = int(a[1]).to_f32();
            format!("{:08x} {}", r.value().to_bits(), matches!(r, Approximation::Exact(_)))
        }
        "iprim" => {
            // conversions to the primitive integers (the wide ones are assembled word by word)
            let x = int(a[1]);
            let u = x.clone().unsigned_abs();
            macro_rules! t {
                ($t:ty) => {
                    match <$t>::try_from(&x) {
                        Ok(v) => format!("{v}"),
                        Err(_) => "-".to_string(),
                    }
                };
            }
            let m = uint(a[2]);
            let mp: u128 = u128::try_from(&m).unwrap_or(u128::MAX) | 1;
            format!("{} {} {} {} {} {} {} {}", t!(u32), t!(i64), t!(u64), t!(i128), t!(u128), t!(usize), show_u(&(&u & mp).into()), &u % mp)
        }
        "inord" => {
            // NumOrd / NumHash of a big integer against primitive integers of every width (usize
            // and u64 / u128 are wider than a machine word in the 32-bit builds): `inord <int> <u128> <neg>`
            use num_order::{NumHash, NumOrd};
            let x = int(a[1]);
            let p: u128 = a[2].parse().unwrap();
            let neg = a[3] == "1";
            fn o(v: Option<core::cmp::Ordering>) -> char {
                match v {
                    Some(core::cmp::Ordering::Less) => '<',
                    Some(core::cmp::Ordering::Equal) => '=',
                    Some(core::cmp::Ordering::Greater) => '>',
                    None => '?',
                }
            }
            fn h<T: NumHash>(v: &T) -> u64 {
                use std::hash::Hasher;
                let mut s = std::collections::hash_map::DefaultHasher::new();
                v.num_hash(&mut s);
                s.finish()
            }
            let mut out = String::new();
            macro_rules! un {
                ($t:ty) => {{
                    let q = p as $t;
                    out.push(o(x.num_partial_cmp(&q)));
                    out.push(o(q.num_partial_cmp(&x)));
                    if let Ok(u) = UBig::try_from(x.clone()) {
                        out.push(o(u.num_partial_cmp(&q)));
                        out.push(o(q.num_partial_cmp(&u)));
                        out.push(if u.num_eq(&q) == (h(&u) == h(&q)) || !u.num_eq(&q) { 'h' } else { 'H' });
                    }
                    out.push(' ');
                }};
            }
            macro_rules! si {
                ($t:ty) => {{
                    let q = if neg { (p as $t).wrapping_neg() } else { p as $t };
                    out.push(o(x.num_partial_cmp(&q)));
                    out.push(o(q.num_partial_cmp(&x)));
                    out.push(if !x.num_eq(&q) || h(&x) == h(&q) { 'h' } else { 'H' });
                    out.push(' ');
                }};
            }
            un!(u8); un!(u16); un!(u32); un!(u64); un!(u128); un!(usize);
            si!(i8); si!(i16); si!(i32); si!(i64); si!(i128); si!(isize);
            out
        }
        "ilog2b" => {
            let (lb, ub) = uint(a[1]).log2_bounds();
            format!("{:08x} {:08x}", lb.to_bits(), ub.to_bits())
        }
        "ibits" => {
            let x = int(a[1]);
            format!("{} {:?} {}", x.bit_len(), x.trailing_zeros(), x.bit(n(2)))
        }
        "irepr" => {
            // representation of a freshly computed value (hook), per build word size
            let x = int(a[1]) * int(a[2]) + int(a[1]);
            repr_info(&x)
        }
        "imodpow" => {
            let m = uint(a[3]);
            let ring = ConstDivisor::new(m);
            let x = ring.reduce(int(a[1]));
            show_u(&x.pow(&uint(a[2])).residue())
        }
        "imodmul" => {
            // products (and a square, a sum, a difference) of residues that may be shorter than the modulus
            let ring = ConstDivisor::new(uint(a[3]));
            let (x, y) = (ring.reduce(int(a[1])), ring.reduce(int(a[2])));
            let p1 = (&x * &y).residue();
            let mut z = x.clone();
            z *= &y;
            let sq = (&x * &x).residue();
            let s = (&x + &y).residue();
            let d = (x - y).residue();
            format!("{} {} {} {} {}", show_u(&p1), show_u(&z.residue()), show_u(&sq), show_u(&s), show_u(&d))
        }
        "imodinv" => {
            let ring = ConstDivisor::new(uint(a[2]));
            match ring.reduce(int(a[1])).inv() {
                Some(v) => show_u(&v.residue()),
                None => "none".into(),
            }
        }
        // ---------------- decimal floats (HalfEven) and binary floats (Zero)
        "dadd" | "dsub" | "dmul" | "ddiv" => {
            let (x, y) = (dec(a[1], a[2], a[3]), dec(a[4], a[5], a[3]));
            let cx = Context::<mode::HalfEven>::new(n(3));
            let r = match a[0] {
                "dadd" => cx.add(x.repr(), y.repr()),
                "dsub" => cx.sub(x.repr(), y.repr()),
                "dmul" => cx.mul(x.repr(), y.repr()),
                _ => cx.div(x.repr(), y.repr()),
            };
            format!("{} {}", show_f(r.clone().value_ref()), flag(&r))
        }
        "dsqrt" => {
            let x = dec(a[1], a[2], a[3]);
            let r = Context::<mode::HalfEven>::new(n(3)).sqrt(x.repr());
            format!("{} {}", show_f(r.clone().value_ref()), flag(&r))
        }
        "badd" | "bmul" | "bdiv" => {
            let (x, y) = (bin(a[1], a[2], a[3]), bin(a[4], a[5], a[3]));
            let cx = Context::<mode::Zero>::new(n(3));
            let r = match a[0] {
                "badd" => cx.add(x.repr(), y.repr()),
                "bmul" => cx.mul(x.repr(), y.repr()),
                _ => cx.div(x.repr(), y.repr()),
            };
            format!("{} {}", show_f(r.clone().value_ref()), flag(&r))
        }
        "dstr" => {
            let x = dec(a[1], a[2], a[3]);
            format!("{} | {:e} | {:.3}", x, x, x)
        }
        "dparse" => match D::from_str(std::str::from_utf8(&unhex(a[1])).unwrap_or("\u{fffd}")) {
            Ok(v) => show_f(&v),
            Err(_) => "ERR".into(),
        },
        "bparse" => match F::from_str(std::str::from_utf8(&unhex(a[1])).unwrap_or("\u{fffd}")) {
            Ok(v) => show_f(&v),
            Err(_) => "ERR".into(),
        },
        "dtoint" => {
            let r = dec(a[1], a[2], a[3]).to_int();
            format!("{} {}", show_i(r.clone().value_ref()), flag(&r))
        }
        "df64" => {
            let r = dec(a[1], a[2], a[3]).to_f64();
            format!("{:016x}", r.value().to_bits())
        }
        "b2d" => {
            // exact direction: binary -> decimal with unlimited digits is always representable
            let x = bin(a[1], a[2], a[3]);
            let r = x.with_base_and_precision::<10>(n(4));
            format!("{} {}", show_f(r.clone().value_ref()), flag(&r))
        }
        "dlog2b" => {
            let (lb, ub) = dec(a[1], a[2], a[3]).log2_bounds();
            format!("{:08x} {:08x}", lb.to_bits(), ub.to_bits())
        }
        // ---------------- rationals
        "radd" => show_r(&(rat(a[1], a[2]) + rat(a[3], a[4]))),
        "rmul" => show_r(&(rat(a[1], a[2]) * rat(a[3], a[4]))),
        "rdiv" => show_r(&(rat(a[1], a[2]) / rat(a[3], a[4]))),
        "rf64" => {
            let r = rat(a[1], a[2]).to_f64();
            format!("{:016x} {}", r.value().to_bits(), matches!(r, Approximation::Exact(_)))
        }
        "rstr" => format!("{}", rat(a[1], a[2])),
        "rparse" => match RBig::from_str(std::str::from_utf8(&unhex(a[1])).unwrap_or("\u{fffd}")) {
            Ok(v) => show_r(&v),
            Err(_) => "ERR".into(),
        },
        "rlog2b" => {
            let (lb, ub) = rat(a[1], a[2]).log2_bounds();
            format!("{:08x} {:08x}", lb.to_bits(), ub.to_bits())
        }
        // ---------------- serialization: encode
        "ser_i" => {
            let x = int(a[1]);
            let u = x.clone().unsigned_abs();
            format!(
                "{} {} {} {}",
                hex(serde_json::to_string(&x).unwrap().as_bytes()),
                hex(&postcard::to_allocvec(&x).unwrap()),
                hex(serde_json::to_string(&u).unwrap().as_bytes()),
                hex(&postcard::to_allocvec(&u).unwrap())
            )
        }
        "ser_d" => {
            let x = dec(a[1], a[2], a[3]);
            format!("{} {}", hex(serde_json::to_string(&x).unwrap().as_bytes()), hex(&postcard::to_allocvec(&x).unwrap()))
        }
        "ser_b" => {
            let x = bin(a[1], a[2], a[3]);
            format!("{} {}", hex(serde_json::to_string(&x).unwrap().as_bytes()), hex(&postcard::to_allocvec(&x).unwrap()))
        }
        "ser_r" => {
            let x = rat(a[1], a[2]);
            let y = Relaxed::from_parts(int(a[1]), uint(a[2]));
            format!(
                "{} {} {} {}",
                hex(serde_json::to_string(&x).unwrap().as_bytes()),
                hex(&postcard::to_allocvec(&x).unwrap()),
                hex(serde_json::to_string(&y).unwrap().as_bytes()),
                hex(&postcard::to_allocvec(&y).unwrap())
            )
        }
        // ---------------- serialization: decode (round trips and arbitrary input)
        "de_json" => {
            let b = unhex(a[2]);
            let s = match std::str::from_utf8(&b) {
                Ok(s) => s,
                Err(_) => return "ERR".into(),
            };
            match a[1] {
                "u" => serde_json::from_str::<UBig>(s).map(|v| format!("OK {} {}", show_u(&v), repr_info(&IBig::from(v.clone())))).unwrap_or("ERR".into()),
                "i" => serde_json::from_str::<IBig>(s).map(|v| format!("OK {} {}", show_i(&v), repr_info(&v))).unwrap_or("ERR".into()),
                "d" => serde_json::from_str::<D>(s).map(|v| format!("OK {}", show_f(&v))).unwrap_or("ERR".into()),
                "b" => serde_json::from_str::<F>(s).map(|v| format!("OK {}", show_f(&v))).unwrap_or("ERR".into()),
                "r" => serde_json::from_str::<RBig>(s).map(|v| format!("OK {}", show_r(&v))).unwrap_or("ERR".into()),
                _ => serde_json::from_str::<Relaxed>(s).map(|v| format!("OK {}/{}", show_i(v.numerator()), show_u(v.denominator()))).unwrap_or("ERR".into()),
            }
        }
        "de_post" => {
            let b = unhex(a[2]);
            match a[1] {
                "u" => postcard::from_bytes::<UBig>(&b).map(|v| format!("OK {} {}", show_u(&v), repr_info(&IBig::from(v.clone())))).unwrap_or("ERR".into()),
                "i" => postcard::from_bytes::<IBig>(&b).map(|v| format!("OK {} {}", show_i(&v), repr_info(&v))).unwrap_or("ERR".into()),
                "d" => postcard::from_bytes::<D>(&b).map(|v| format!("OK {}", show_f(&v))).unwrap_or("ERR".into()),
                "b" => postcard::from_bytes::<F>(&b).map(|v| format!("OK {}", show_f(&v))).unwrap_or("ERR".into()),
                "r" => postcard::from_bytes::<RBig>(&b).map(|v| format!("OK {}", show_r(&v))).unwrap_or("ERR".into()),
                _ => postcard::from_bytes::<Relaxed>(&b).map(|v| format!("OK {}/{}", show_i(v.numerator()), show_u(v.denominator()))).unwrap_or("ERR".into()),
            }
        }
        // ---------------- a human-readable deserializer that hands over what it holds (serde's value
        // deserializers): the readable decoders ask for a string and get a sequence / a map instead, so
        // their visit_seq / visit_map run in readable mode. `de_val <r|x> <seq|map> tok...`: seq takes the
        // elements, map takes key value pairs.
        "de_val" => {
            use serde::de::value::{Error as VErr, MapDeserializer, SeqDeserializer};
            use serde::Deserialize;
            let toks: Vec<&str> = a[3..].to_vec();
            fn fin<T>(r: Result<T, VErr>, show: impl Fn(&T) -> String) -> String {
                match r {
                    Ok(v) => format!("OK {}", show(&v)),
                    Err(_) => "ERR".into(),
                }
            }
            let show_x = |v: &Relaxed| format!("{}/{}", show_i(v.numerator()), show_u(v.denominator()));
            match (a[1], a[2]) {
                ("r", "seq") => fin(RBig::deserialize(SeqDeserializer::<_, VErr>::new(toks.into_iter())), |v| show_r(v)),
                ("x", "seq") => fin(Relaxed::deserialize(SeqDeserializer::<_, VErr>::new(toks.into_iter())), show_x),
                ("r", _) => fin(RBig::deserialize(MapDeserializer::<_, VErr>::new(toks.chunks(2).filter(|c| c.len() == 2).map(|c| (c[0], c[1])))), |v| show_r(v)),
                _ => fin(Relaxed::deserialize(MapDeserializer::<_, VErr>::new(toks.chunks(2).filter(|c| c.len() == 2).map(|c| (c[0], c[1])))), show_x),
            }
        }
        // ---------------- a self-describing binary format (CBOR): structs travel as maps, so the
        // decoders' map visitors run; `order` lists the entries of the re-encoded map (indices into
        // the original one): a permutation must decode to the same value, anything else is an error
        "cbor" => {
            fn go<T: serde::Serialize + serde::de::DeserializeOwned + PartialEq>(x: &T, same: impl Fn(&T, &T) -> bool, order: &str) -> String {
                let mut bytes = Vec::new();
                if ciborium::ser::into_writer(x, &mut bytes).is_err() {
                    return "ENCODE-ERR".into();
                }
                let rt = match ciborium::de::from_reader::<T, _>(&bytes[..]) {
                    Ok(y) => format!("RT={}", same(x, &y)),
                    Err(_) => "RT=ERR".into(),
                };
                let val: ciborium::value::Value = match ciborium::de::from_reader(&bytes[..]) {
                    Ok(v) => v,
                    Err(_) => return format!("{rt} VALUE-ERR"),
                };
                let perm = match val {
                    ciborium::value::Value::Map(entries) => {
                        let mut out = Vec::new();
                        for ch in order.chars() {
                            let i = ch.to_digit(10).unwrap_or(0) as usize;
                            if i < entries.len() {
                                out.push(entries[i].clone());
                            }
                        }
                        let mut b2 = Vec::new();
                        let _ = ciborium::ser::into_writer(&ciborium::value::Value::Map(out), &mut b2);
                        match ciborium::de::from_reader::<T, _>(&b2[..]) {
                            Ok(y) => format!("MAP{} PERM={}", entries.len(), if same(x, &y) { "OK-equal" } else { "OK-differs" }),
                            Err(_) => format!("MAP{} PERM=ERR", entries.len()),
                        }
                    }
                    _ => "NOMAP".into(),
                };
                format!("{rt} {perm}")
            }
            match a[1] {
                "u" => go(&uint(a[3]), |x, y| x == y, a[2]),
                "i" => go(&int(a[3]), |x, y| x == y, a[2]),
                "d" => go(&dec(a[3], a[4], a[5]), |x, y| x.repr() == y.repr() && x.precision() == y.precision(), a[2]),
                "b" => go(&bin(a[3], a[4], a[5]), |x, y| x.repr() == y.repr() && x.precision() == y.precision(), a[2]),
                "r" => go(&rat(a[3], a[4]), |x, y| x == y, a[2]),
                _ => go(&Relaxed::from_parts(int(a[3]), uint(a[4])), |x, y| x.numerator() == y.numerator() && x.denominator() == y.denominator(), a[2]),
            }
        }
        // ---------------- log2 bounds of primitives (EstimatedLog2 in dashu-base)
        "plog2" => {
            macro_rules! one {
                ($t:ty) => {{
                    let v: $t = i128::from_str_radix(a[2], 10).unwrap() as $t;
                    let (lb, ub) = v.log2_bounds();
                    format!("{:08x} {:08x} {:08x}", lb.to_bits(), ub.to_bits(), v.log2_est().to_bits())
                }};
            }
            match a[1] {
                "u8" => one!(u8),
                "u16" => one!(u16),
                "u32" => one!(u32),
                "u64" => one!(u64),
                "usize" => one!(usize),
                "i8" => one!(i8),
                "i16" => one!(i16),
                "i32" => one!(i32),
                "i64" => one!(i64),
                "isize" => one!(isize),
                "i128" => one!(i128),
                _ => {
                    let v: u128 = u128::from_str_radix(a[2], 10).unwrap();
                    let (lb, ub) = v.log2_bounds();
                    format!("{:08x} {:08x} {:08x}", lb.to_bits(), ub.to_bits(), v.log2_est().to_bits())
                }
            }
        }
        "plog2all" => {
            // every value of an 8/16-bit type on one line: "lb ub est" triples
            let mut s = String::new();
            macro_rules! all {
                ($t:ty) => {{
                    for v in <$t>::MIN..=<$t>::MAX {
                        if v == 0 {
                            s.push_str("- - - ");
                            continue;
                        }
                        let (lb, ub) = v.log2_bounds();
                        s.push_str(&format!("{:08x} {:08x} {:08x} ", lb.to_bits(), ub.to_bits(), v.log2_est().to_bits()));
                    }
                }};
            }
            match a[1] {
                "u8" => all!(u8),
                "i8" => all!(i8),
                "u16" => all!(u16),
                _ => all!(i16),
            }
            s
        }
        "flog2" => {
            if a[1] == "f32" {
                let v = f32::from_bits(u32::from_str_radix(a[2], 16).unwrap());
                let (lb, ub) = v.log2_bounds();
                format!("{:08x} {:08x} {:08x}", lb.to_bits(), ub.to_bits(), v.log2_est().to_bits())
            } else {
                let v = f64::from_bits(u64::from_str_radix(a[2], 16).unwrap());
                let (lb, ub) = v.log2_bounds();
                format!("{:08x} {:08x} {:08x}", lb.to_bits(), ub.to_bits(), v.log2_est().to_bits())
            }
        }
        "biglog2" => {
            // UBig / IBig / FBig<2> / FBig<10> / RBig with est
            let (lb, ub, est) = match a[1] {
                "u" => { let x = uint(a[2]); let (l, u) = x.log2_bounds(); (l, u, x.log2_est()) }
                "i" => { let x = int(a[2]); let (l, u) = x.log2_bounds(); (l, u, x.log2_est()) }
                "p" => {
                    // 2^n + d, d in {-1, 0, 1}: huge powers of two without megabytes of digits on the line
                    let n: usize = a[2].parse().unwrap();
                    let d: i8 = a[3].parse().unwrap();
                    let x = UBig::ONE << n;
                    let x = match d { 0 => x, 1 => x + UBig::ONE, _ => x - UBig::ONE };
                    let (l, u) = x.log2_bounds();
                    (l, u, x.log2_est())
                }
                "d" => { let x = dec(a[2], a[3], a[4]); let (l, u) = x.log2_bounds(); (l, u, x.log2_est()) }
                "b" => { let x = bin(a[2], a[3], a[4]); let (l, u) = x.log2_bounds(); (l, u, x.log2_est()) }
                _ => { let x = rat(a[2], a[3]); let (l, u) = x.log2_bounds(); (l, u, x.log2_est()) }
            };
            format!("{:08x} {:08x} {:08x}", lb.to_bits(), ub.to_bits(), est.to_bits())
        }
        other => format!("UNKNOWN-OP {other}"),
    }
}

trait ValueRef<T> {
    fn value_ref(&self) -> &T;
}
impl<T, E> ValueRef<T> for Approximation<T, E> {
    fn value_ref(&self) -> &T {
        match self {
            Approximation::Exact(v) => v,
            Approximation::Inexact(v, _) => v,
        }
    }
}

fn main() {
    if std::env::var("DV_EVAL_VERBOSE").is_err() {
        std::panic::set_hook(Box::new(|_| {}));
    }
    let path = std::env::args().nth(1).expect("usage: dv-eval <casefile>");
    let f = std::fs::File::open(path).expect("open case file");
    let out = std::io::stdout();
    let mut out = std::io::BufWriter::new(out.lock());
    writeln!(out, "CONFIG wordbits={} std={} debug_assertions={}", dashu_int::Word::BITS, cfg!(feature = "std"), cfg!(debug_assertions)).unwrap();
    out.flush().unwrap();
    for (i, line) in std::io::BufReader::new(f).lines().enumerate() {
        let line = line.unwrap();
        let args: Vec<&str> = line.split_whitespace().collect();
        if args.is_empty() {
            continue;
        }
        let r = catch_unwind(AssertUnwindSafe(|| eval(&args))).unwrap_or_else(|_| "PANIC".to_string());
        writeln!(out, "{i} {r}").unwrap();
        // flushed per case: the parent watchdog reads how far the evaluator got when it kills it
        out.flush().unwrap();
    }
}
