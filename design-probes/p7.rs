use dashu_int::{IBig, UBig};
use num_bigint::BigInt;
fn main() {
    let mut bad = 0;
    for (lo, hi) in [(0u64, 0x10000u64), (1, 0x10000), (0, 1), (5, 1), (0, u64::MAX), (u64::MAX, u64::MAX), (1u64<<63, 7)] {
        let m = UBig::from_words(&[lo, hi]);
        let a = -IBig::from(m.clone());
        let na = -BigInt::parse_bytes(m.to_string().as_bytes(), 10).unwrap();
        for s in [0usize, 1, 63, 64, 65, 80, 81, 100, 127, 128, 129, 200] {
            let got = (&a >> s).to_string();
            let got2 = (a.clone() >> s).to_string();
            let want = (&na >> s).to_string();
            if got != want || got2 != want { bad += 1; println!("-[{lo:#x},{hi:#x}] >> {s}: ref-form {got} val-form {got2} want {want}"); }
        }
    }
    println!("bad={bad}");
    // a few more RBig::to_f64 samples for python cross-check
    use dashu_ratio::RBig;
    for (n, d) in [(13600970i64, 11329929u64), (1, 3), (2, 3), (10, 7), (12345677, 7654321), (9007199254740993, 3)] {
        let q = RBig::from_parts(IBig::from(n), UBig::from(d));
        println!("{n}/{d} -> {:?} {:?}", q.to_f64(), q.to_f64().value().to_bits());
    }
}
