// calibration: rounding primitives, Farey neighbours, simplest_from_f64, NumHash, log2_bounds
use dashu_base::*;
use dashu_float::round::{mode, Round, Rounding};
use dashu_float::FBig;
use dashu_int::{IBig, UBig};
use dashu_ratio::RBig;
use num_bigint::BigInt;
use num_rational::BigRational;
use num_traits::{One, Signed as _, Zero};
use std::collections::BTreeMap;
use std::panic::{catch_unwind, AssertUnwindSafe};

struct Rng(u64);
impl Rng {
    fn next(&mut self) -> u64 {
        self.0 ^= self.0 << 13;
        self.0 ^= self.0 >> 7;
        self.0 ^= self.0 << 17;
        self.0
    }
    fn below(&mut self, n: u64) -> u64 {
        self.next() % n
    }
}
fn n2di(n: &BigInt) -> IBig {
    IBig::from_str_radix(&n.to_str_radix(16), 16).unwrap()
}
fn d2n(d: &IBig) -> BigInt {
    BigInt::parse_bytes(d.to_string().as_bytes(), 10).unwrap()
}
fn rb(q: &BigRational) -> RBig {
    RBig::from_parts(n2di(q.numer()), UBig::try_from(n2di(q.denom())).unwrap())
}
fn rq(r: &RBig) -> BigRational {
    BigRational::new(d2n(r.numerator()), d2n(&IBig::from(r.denominator().clone())))
}
fn round_mode(mode: &str, v: &BigRational) -> BigInt {
    let fl = v.floor().to_integer();
    let ce = v.ceil().to_integer();
    if fl == ce {
        return fl;
    }
    let half = BigRational::new(BigInt::one(), BigInt::from(2));
    let frac = v - BigRational::from_integer(fl.clone());
    match mode {
        "Zero" => {
            if v.is_negative() {
                ce
            } else {
                fl
            }
        }
        "Away" => {
            if v.is_negative() {
                fl
            } else {
                ce
            }
        }
        "Up" => ce,
        "Down" => fl,
        "HalfAway" => {
            if frac > half {
                ce
            } else if frac < half {
                fl
            } else if v.is_negative() {
                fl
            } else {
                ce
            }
        }
        _ => {
            if frac > half {
                ce
            } else if frac < half {
                fl
            } else if (&fl % BigInt::from(2)).is_zero() {
                fl
            } else {
                ce
            }
        }
    }
}
fn adj(r: Rounding) -> i32 {
    match r {
        Rounding::NoOp => 0,
        Rounding::AddOne => 1,
        Rounding::SubOne => -1,
    }
}

fn prim<R: Round>(mode: &str, r: &mut Rng, fails: &mut BTreeMap<String, (u64, String)>) {
    for _ in 0..4000 {
        let int = BigInt::from(r.below(9) as i64 - 4);
        let digits = 1 + r.below(3) as usize;
        macro_rules! base {
            ($b:expr) => {{
                let lim = num_traits::pow(BigInt::from($b as u64), digits);
                let mut fr = BigInt::from(r.next() >> 20) % &lim;
                match r.below(4) {
                    0 => fr = &lim / BigInt::from(2),
                    1 => fr = BigInt::zero(),
                    _ => {}
                }
                if r.below(2) == 0 {
                    fr = -fr;
                }
                let v = BigRational::from_integer(int.clone()) + BigRational::new(fr.clone(), lim.clone());
                let want = round_mode(mode, &v) - &int;
                let got = catch_unwind(AssertUnwindSafe(|| R::round_fract::<$b>(&n2di(&int), n2di(&fr), digits)));
                match got {
                    Ok(g) => {
                        if BigInt::from(adj(g)) != want {
                            let e = fails.entry(format!("round_fract/{mode}/B{}", $b)).or_insert((0, format!("int={int} fract={fr}/{lim} got {:?} want {want}", g)));
                            e.0 += 1;
                        }
                    }
                    Err(_) => {
                        fails.entry(format!("round_fract/{mode} PANIC")).or_insert((0, format!("int={int} fract={fr}/{lim}"))).0 += 1;
                    }
                }
            }};
        }
        base!(2);
        base!(10);
        base!(3);
        // ratio
        let den = BigInt::from(1 + r.below(40)) * if r.below(2) == 0 { BigInt::from(-1) } else { BigInt::one() };
        let mut num = BigInt::from(r.below(40)) % den.abs();
        if r.below(2) == 0 {
            num = -num;
        }
        if r.below(4) == 0 && (&den % BigInt::from(2)).is_zero() {
            num = &den / BigInt::from(2);
        }
        let v = BigRational::from_integer(int.clone()) + BigRational::new(num.clone(), den.clone());
        let want = round_mode(mode, &v) - &int;
        match catch_unwind(AssertUnwindSafe(|| R::round_ratio(&n2di(&int), n2di(&num), &n2di(&den)))) {
            Ok(g) => {
                if BigInt::from(adj(g)) != want {
                    fails.entry(format!("round_ratio/{mode}")).or_insert((0, format!("int={int} num={num} den={den} got {:?} want {want}", g))).0 += 1;
                }
            }
            Err(_) => {
                fails.entry(format!("round_ratio/{mode} PANIC")).or_insert((0, format!("int={int} num={num} den={den}"))).0 += 1;
            }
        }
    }
}

fn main() {
    std::panic::set_hook(Box::new(|_| {}));
    let mut r = Rng(0x1234567 | 1);
    let mut fails: BTreeMap<String, (u64, String)> = BTreeMap::new();
    prim::<mode::Zero>("Zero", &mut r, &mut fails);
    prim::<mode::Away>("Away", &mut r, &mut fails);
    prim::<mode::Up>("Up", &mut r, &mut fails);
    prim::<mode::Down>("Down", &mut r, &mut fails);
    prim::<mode::HalfEven>("HalfEven", &mut r, &mut fails);
    prim::<mode::HalfAway>("HalfAway", &mut r, &mut fails);

    // Farey neighbours brute force
    for _ in 0..3000 {
        let q = BigRational::new(BigInt::from(r.below(400) as i64 - 200), BigInt::from(1 + r.below(60)));
        let limit = 1 + r.below(25);
        let x = rb(&q);
        let desc = format!("x={q} limit={limit}");
        let lim = UBig::from(limit);
        let res = catch_unwind(AssertUnwindSafe(|| (x.next_up(&lim), x.next_down(&lim), x.nearest(&lim))));
        match res {
            Err(e) => {
                let msg = e.downcast_ref::<String>().cloned().or(e.downcast_ref::<&str>().map(|s| s.to_string())).unwrap_or_default();
                fails.entry(format!("farey PANIC {msg}")).or_insert((0, desc.clone())).0 += 1;
            }
            Ok((up, down, near)) => {
                // brute force
                let mut best_up: Option<BigRational> = None;
                let mut best_down: Option<BigRational> = None;
                for d in 1..=limit as i64 {
                    let n_up = (&q * BigInt::from(d)).floor().to_integer() + BigInt::one();
                    let c = BigRational::new(n_up, BigInt::from(d));
                    if best_up.as_ref().map_or(true, |b| c < *b) {
                        best_up = Some(c);
                    }
                    let n_dn = (&q * BigInt::from(d)).ceil().to_integer() - BigInt::one();
                    let c = BigRational::new(n_dn, BigInt::from(d));
                    if best_down.as_ref().map_or(true, |b| c > *b) {
                        best_down = Some(c);
                    }
                }
                if Some(rq(&up)) != best_up {
                    fails.entry("next_up".into()).or_insert((0, format!("{desc} got {up} want {:?}", best_up.clone().map(|b| b.to_string())))).0 += 1;
                }
                if Some(rq(&down)) != best_down {
                    fails.entry("next_down".into()).or_insert((0, format!("{desc} got {down} want {:?}", best_down.clone().map(|b| b.to_string())))).0 += 1;
                }
                let (nv, flag) = match near {
                    Approximation::Exact(v) => (v, None),
                    Approximation::Inexact(v, s) => (v, Some(s)),
                };
                if q.denom() <= &BigInt::from(limit) {
                    if flag.is_some() || rq(&nv) != q {
                        fails.entry("nearest exact".into()).or_insert((0, desc.clone())).0 += 1;
                    }
                } else {
                    let (u, d) = (best_up.unwrap(), best_down.unwrap());
                    let du = &u - &q;
                    let dd = &q - &d;
                    let v = rq(&nv);
                    let ok = if du < dd { v == u } else if dd < du { v == d } else { v == u || v == d };
                    if !ok {
                        fails.entry("nearest value".into()).or_insert((0, format!("{desc} got {nv}"))).0 += 1;
                    } else if let Some(s) = flag {
                        if (v > q) != (s == Sign::Positive) {
                            fails.entry("nearest sign".into()).or_insert((0, format!("{desc} got {nv} {:?}", s))).0 += 1;
                        }
                    } else {
                        fails.entry("nearest flagged exact".into()).or_insert((0, desc.clone())).0 += 1;
                    }
                }
            }
        }
    }
    // simplest_from_f64: round trip + no simpler in interval (brute force small denominators)
    for i in 0..3000 {
        let f: f64 = match i % 4 {
            0 => (r.below(2000) as f64 - 1000.0) / (1 + r.below(50)) as f64,
            1 => f64::from_bits(r.next() >> 2 | 0x3ff0_0000_0000_0000 & (r.next())),
            2 => (r.below(100) as f64) * 0.1,
            _ => 1.0 / (1 + r.below(1000)) as f64,
        };
        if !f.is_finite() {
            continue;
        }
        let desc = format!("f={f:e} bits={:#x}", f.to_bits());
        match catch_unwind(AssertUnwindSafe(|| RBig::simplest_from_f64(f))) {
            Err(_) => {
                fails.entry("simplest_from_f64 PANIC".into()).or_insert((0, desc.clone())).0 += 1;
            }
            Ok(None) => {
                fails.entry("simplest_from_f64 None".into()).or_insert((0, desc.clone())).0 += 1;
            }
            Ok(Some(s)) => {
                let back = s.to_f64().value();
                // use independent conversion: numerator/denominator as f64 division when both < 2^53
                let sq = rq(&s);
                use num_traits::ToPrimitive;
                if let (Some(n), Some(d)) = (sq.numer().to_i64(), sq.denom().to_i64()) {
                    if n.abs() < (1 << 53) && d < (1 << 53) {
                        let ind = n as f64 / d as f64;
                        if ind.to_bits() != f.to_bits() && !(ind == 0.0 && f == 0.0) {
                            fails.entry("simplest_from_f64 does not round back".into()).or_insert((0, format!("{desc} got {s} -> {ind:e} (dashu to_f64 {back:e})"))).0 += 1;
                        }
                        // simpler candidate search: denominators below result's
                        if d < 3000 && f != 0.0 {
                            'o: for dd in 1..d {
                                let nn = (f * dd as f64).round() as i64;
                                for cand in [nn - 1, nn, nn + 1] {
                                    if (cand as f64 / dd as f64).to_bits() == f.to_bits() {
                                        fails.entry("simplest_from_f64 not simplest".into()).or_insert((0, format!("{desc} got {s} but {cand}/{dd} also rounds to f"))).0 += 1;
                                        break 'o;
                                    }
                                }
                            }
                        }
                    }
                }
            }
        }
    }
    // NumHash equality across types
    {
        use num_order::NumHash;
        use std::hash::Hasher;
        fn h<T: NumHash>(t: &T) -> u64 {
            let mut s = std::collections::hash_map::DefaultHasher::new();
            t.num_hash(&mut s);
            s.finish()
        }
        let m127 = (BigInt::one() << 127usize) - BigInt::one();
        for i in 0..3000 {
            let mut n = BigInt::from(r.next() as i64 >> (r.below(60)));
            match i % 6 {
                0 => n = &m127 * BigInt::from(r.below(5) as i64 - 2),
                1 => n = &m127 + BigInt::from(r.below(5) as i64 - 2),
                2 => n = n * BigInt::from(r.next()) * BigInt::from(r.next()),
                _ => {}
            }
            let i_ = n2di(&n);
            let hi = h(&i_);
            let desc = format!("n={n}");
            if let Ok(v) = i64::try_from(&n) {
                if h(&v) != hi {
                    fails.entry("numhash i64 vs IBig".into()).or_insert((0, desc.clone())).0 += 1;
                }
                let f = v as f64;
                if f as i64 == v && (f as i128) == v as i128 && h(&f) != hi {
                    fails.entry("numhash f64 vs IBig".into()).or_insert((0, desc.clone())).0 += 1;
                }
            }
            let rbig = RBig::from(i_.clone());
            if h(&rbig) != hi {
                fails.entry("numhash RBig vs IBig".into()).or_insert((0, desc.clone())).0 += 1;
            }
            let fb: FBig<mode::Zero, 2> = FBig::from(i_.clone());
            if h(&fb) != hi {
                fails.entry("numhash FBig2 vs IBig".into()).or_insert((0, desc.clone())).0 += 1;
            }
            let fd: FBig<mode::Zero, 10> = FBig::from(i_.clone());
            if h(&fd) != hi {
                fails.entry("numhash FBig10 vs IBig".into()).or_insert((0, desc.clone())).0 += 1;
            }
            if !n.is_negative() {
                let u = UBig::try_from(i_.clone()).unwrap();
                if h(&u) != hi {
                    fails.entry("numhash UBig vs IBig".into()).or_insert((0, desc.clone())).0 += 1;
                }
            }
            // halves: n/2^k as FBig2, FBig10(n*5^k e-k), RBig
            let k = 1 + r.below(40) as usize;
            let q = RBig::from_parts(i_.clone(), UBig::ONE << k);
            let f2: FBig<mode::Zero, 2> = FBig::from_parts(i_.clone(), -(k as isize));
            let f10: FBig<mode::Zero, 10> = FBig::from_parts(i_.clone() * IBig::from(5).pow(k), -(k as isize));
            let (hq, h2, h10) = (h(&q), h(&f2), h(&f10));
            if hq != h2 || hq != h10 {
                fails.entry("numhash dyadic RBig/FBig2/FBig10".into()).or_insert((0, format!("{desc} k={k} eq? {} {}", hq == h2, hq == h10))).0 += 1;
            }
        }
    }
    // log2_bounds enclosure for integers (exact check through f64 of bit positions: use big powers)
    {
        for _ in 0..3000 {
            let bits = 1 + r.below(300) as usize;
            let mut n = BigInt::one() << (bits - 1);
            for _ in 0..4 {
                n += BigInt::from(r.next()) << (r.below(bits as u64) as usize).saturating_sub(64);
            }
            n = n % (BigInt::one() << bits);
            if n.is_zero() {
                continue;
            }
            if r.below(5) == 0 {
                n = BigInt::one() << (bits - 1);
            }
            let u = UBig::try_from(n2di(&n)).unwrap();
            let (lb, ub) = u.log2_bounds();
            // exact log2 via f64 on top 64 bits: log2(n) = (nbits-64) + log2(top) accurate to ~1e-15, compare with slack 1e-9
            let nb = n.bits() as i64;
            let top = if nb > 64 { (&n >> (nb - 64) as usize) } else { n.clone() };
            use num_traits::ToPrimitive;
            let l = top.to_f64().unwrap().log2() + if nb > 64 { (nb - 64) as f64 } else { 0.0 };
            if (lb as f64) > l + 1e-9 || (ub as f64) < l - 1e-9 {
                fails.entry("UBig log2_bounds not enclosing".into()).or_insert((0, format!("n={n} bounds=({lb},{ub}) log2={l}"))).0 += 1;
            }
        }
    }
    for (k, (c, d)) in &fails {
        let d: String = d.chars().take(300).collect();
        println!("FAIL {k}: count={c} first: {d}");
    }
    println!("done");
}
