use dashu_float::{DBig, FBig, round::mode};
use dashu_base::Approximation;
use std::str::FromStr;
fn main() {
    let which = std::env::args().nth(1).unwrap();
    match which.as_str() {
        "lnneg" => { let x = DBig::from_str("-2.000").unwrap(); println!("{}", x.ln()); }
        "ln0" => { let x = DBig::from_str("0.000").unwrap(); println!("{}", x.ln()); }
        "ln1pneg" => { let x = DBig::from_str("-1.500").unwrap(); println!("{}", x.ln_1p()); }
        "ln1pm1" => { let x = DBig::from_str("-1.000").unwrap(); println!("{}", x.ln_1p()); }
        "shr" => { let mut x = DBig::from_str("1.5").unwrap(); x >>= 2; println!("{} vs {}", x, DBig::from_str("1.5").unwrap() >> 2); let mut z = DBig::ZERO; z >>= 3; println!("{:?}", z.repr()); }
        "todec" => { let x = FBig::<mode::Zero,2>::from_str("0b0.1").unwrap(); println!("prec {} -> {:?}", x.precision(), x.to_decimal()); }
        "1e30" => { let x = DBig::from_str("1e30").unwrap(); println!("{:?}", x.to_f64()); }
        "parse" => {
            for s in ["1.+5", "_", "1._5", "+_", "1e-9223372036854775808", "1.5e-9223372036854775808", "0x1.8p3", "1e99999999999999999999", "é1", "1.é", "1@é", "0x", "0x.", ".", "-", "1__2", "1.2.3", "e5", "1e", "1e+", "∞"] {
                let r = std::panic::catch_unwind(|| DBig::from_str(s));
                println!("{s:?} -> {:?}", r.map(|r| r.map(|v| (v.to_string(), v.precision()))));
            }
            for s in ["_", "+_", "__", "1__2", "", "+", "-", "0x", "-0", "1_", "_1"] {
                println!("ibig {s:?} -> {:?}", dashu_int::IBig::from_str(s));
            }
        }
        "exp" => {
            let x = DBig::from_str("1.0000000000000000000000000000000000000").unwrap();
            println!("{}", x.exp());
            let t = std::time::Instant::now();
            let c = dashu_float::Context::<mode::HalfAway>::new(1000);
            let e = c.exp::<10>(x.repr());
            println!("exp p=1000 {:?} digits {}", t.elapsed(), e.value().repr().digits());
            let t = std::time::Instant::now();
            let e = c.ln::<10>(DBig::from_str("3.7").unwrap().repr());
            println!("ln p=1000 {:?} digits {}", t.elapsed(), e.value().repr().digits());
            let c = dashu_float::Context::<mode::HalfAway>::new(30);
            let t = std::time::Instant::now();
            for i in 1..200 { let x = DBig::from_str(&format!("{}.{}", i, i*7919)).unwrap(); let _ = c.exp::<10>(x.repr()); let _ = c.ln::<10>(x.repr()); }
            println!("200x exp+ln p=30 {:?}", t.elapsed());
            if let Approximation::Inexact(v, _) = c.exp::<10>(DBig::from_str("1e-50").unwrap().repr()) { println!("exp(1e-50) = {v}"); }
            println!("{:?}", c.exp::<10>(DBig::from_str("-1e6").unwrap().repr()).value().repr());
            println!("{:?}", std::panic::catch_unwind(|| c.exp::<10>(DBig::from_str("1e30").unwrap().repr()).value().repr().clone()).is_err());
        }
        _ => {}
    }
}
