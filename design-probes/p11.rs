use dashu_float::DBig;
use std::str::FromStr;
fn main() {
    std::panic::set_hook(Box::new(|_| {}));
    for s in ["1e-9223372036854775808", "1.5e-9223372036854775808", "1.5e9223372036854775807", "15e9223372036854775807", "1.0e9223372036854775807", "100e9223372036854775807"] {
        let r = std::panic::catch_unwind(|| DBig::from_str(s).map(|v| (v.repr().significand().clone(), v.repr().exponent(), v.precision())));
        println!("{s:?} -> {:?}", r);
    }
}
