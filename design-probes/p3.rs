// exploratory probe: float add/sub/mul/div/sqrt rounding contract vs exact rationals
use dashu_base::{Approximation, Sign, UnsignedAbs};
use dashu_float::round::{mode, Round, Rounding};
use dashu_float::{Context, FBig, Repr};
use dashu_int::{IBig, UBig, Word};
use num_bigint::{BigInt, BigUint, Sign as NSign};
use num_rational::BigRational;
use num_traits::{One, Signed, Zero};
use std::collections::BTreeMap;
use std::panic::{catch_unwind, AssertUnwindSafe};

struct Rng(u64);
impl Rng {
    fn next(&mut self) -> u64 {
        self.0 ^= self.0 << 13;
        self.0 ^= self.0 >> 7;
        self.0 ^= self.0 << 17;
        self.0
    }
    fn below(&mut self, n: u64) -> u64 {
        self.next() % n
    }
}
fn di2n(d: &IBig) -> BigInt {
    let (s, w) = d.as_sign_words();
    let mut digits = Vec::new();
    for x in w {
        digits.push(*x as u32);
        digits.push((*x >> 32) as u32);
    }
    BigInt::from_biguint(if s == Sign::Negative { NSign::Minus } else { NSign::Plus }, BigUint::new(digits))
}
fn pow(b: u64, e: u64) -> BigInt {
    num_traits::pow(BigInt::from(b), e as usize)
}
fn repr_val<const B: Word>(r: &Repr<B>) -> BigRational {
    let s = di2n(r.significand());
    let e = r.exponent();
    if e >= 0 {
        BigRational::from_integer(s * pow(B as u64, e as u64))
    } else {
        BigRational::new(s, pow(B as u64, (-e) as u64))
    }
}
// floor(log_B |x|)
fn ilog(x: &BigRational, b: u64) -> i64 {
    let x = x.abs();
    let bb = BigRational::from_integer(BigInt::from(b));
    let mut e: i64 = 0;
    let mut p = BigRational::one();
    if x >= p {
        while &p * &bb <= x {
            p = p * &bb;
            e += 1;
        }
    } else {
        while p > x {
            p = p / &bb;
            e -= 1;
        }
    }
    e
}
fn digits(n: &BigInt, b: u64) -> usize {
    if n.is_zero() {
        return 0;
    }
    n.abs().to_str_radix(b as u32).len()
}

fn gen_repr<const B: Word>(r: &mut Rng, p: usize) -> Repr<B> {
    // significand with <= p digits
    let nd = match r.below(4) {
        0 => p,
        1 => 1 + r.below(p as u64) as usize,
        2 => 1,
        _ => p.saturating_sub(r.below(2) as usize).max(1),
    };
    let mut s = String::new();
    let style = r.below(5);
    for i in 0..nd {
        let d = match style {
            0 => (B - 1) as u64,
            1 => {
                if i == 0 {
                    1
                } else {
                    0
                }
            }
            2 => {
                if i == 0 {
                    B as u64 / 2
                } else {
                    0
                }
            }
            _ => r.below(B as u64),
        };
        s.push(std::char::from_digit(d as u32, B as u32).unwrap());
    }
    let mut sig = IBig::from(UBig::from_str_radix(&s, B as u32).unwrap());
    if style == 1 && r.below(2) == 0 {
        sig += IBig::ONE;
    }
    if r.below(2) == 0 {
        sig = -sig;
    }
    let e = match r.below(4) {
        0 => 0,
        1 => r.below(2 * p as u64 + 6) as isize - (p as isize + 3),
        2 => r.below(9) as isize - 4,
        _ => r.below(60) as isize - 30,
    };
    let rp = Repr::<B>::new(sig, e);
    if rp.digits() > p {
        // 1000..01 case may exceed
        return Repr::<B>::new(IBig::from(7), e);
    }
    rp
}

fn check<R: Round, const B: Word>(
    mode: &str,
    op: &str,
    p: usize,
    x: &BigRational,
    res: Approximation<FBig<R, B>, Rounding>,
    fails: &mut BTreeMap<String, (u64, String)>,
    desc: &str,
) {
    let mut fail = |k: &str| {
        let e = fails.entry(format!("{op}/{mode}/B{B}: {k}")).or_insert((0, desc.to_string()));
        e.0 += 1;
    };
    let (r, flag) = match &res {
        Approximation::Exact(v) => (v, None),
        Approximation::Inexact(v, f) => (v, Some(*f)),
    };
    let rv = repr_val(r.repr());
    let nd = r.repr().digits();
    if nd > p + 1 {
        fail("more than p+1 digits");
    }
    if flag.is_none() != (&rv == x) {
        if flag.is_none() {
            fail("Exact but not equal");
        } else {
            fail("Inexact but equal");
        }
        return;
    }
    if x.is_zero() {
        if !rv.is_zero() {
            fail("nonzero for zero");
        }
        return;
    }
    // representable in p digits?
    let e = ilog(x, B as u64);
    let ulp_exp = e - p as i64 + 1;
    let ulp = if ulp_exp >= 0 {
        BigRational::from_integer(pow(B as u64, ulp_exp as u64))
    } else {
        BigRational::new(BigInt::one(), pow(B as u64, (-ulp_exp) as u64))
    };
    let q = x / &ulp;
    if q.is_integer() && rv != *x {
        fail("representable but not exact");
        return;
    }
    let err = &rv - x;
    if err.abs() >= ulp {
        fail("error >= 1ulp");
        return;
    }
    match mode {
        "Zero" => {
            if rv.abs() > x.abs() {
                fail("wrong side")
            }
        }
        "Away" => {
            if rv.abs() < x.abs() {
                fail("wrong side")
            }
        }
        "Up" => {
            if rv < *x {
                fail("wrong side")
            }
        }
        "Down" => {
            if rv > *x {
                fail("wrong side")
            }
        }
        _ => {
            if err.abs() * BigInt::from(2) > ulp {
                fail("error > 1/2ulp")
            }
        }
    }
    match flag {
        Some(Rounding::AddOne) => {
            if rv <= *x {
                fail("AddOne but r<=x")
            }
        }
        Some(Rounding::SubOne) => {
            if rv >= *x {
                fail("SubOne but r>=x")
            }
        }
        _ => {}
    }
    let _ = digits;
}

fn run<R: Round, const B: Word>(mode: &str, r: &mut Rng, iters: u64, fails: &mut BTreeMap<String, (u64, String)>) {
    for _ in 0..iters {
        let p = match r.below(5) {
            0 => 1,
            1 => 2,
            2 => 3 + r.below(5) as usize,
            3 => 10 + r.below(30) as usize,
            _ => 1 + r.below(12) as usize,
        };
        let ctx = Context::<R>::new(p);
        let a = gen_repr::<B>(r, p);
        let mut b = gen_repr::<B>(r, p);
        if r.below(6) == 0 {
            // near-cancellation: b = -a +- tiny
            b = Repr::<B>::new(-a.significand().clone() + IBig::from(r.below(3) as i8 - 1), a.exponent());
            if b.digits() > p {
                b = Repr::<B>::new(-a.significand().clone(), a.exponent());
            }
        }
        let (va, vb) = (repr_val(&a), repr_val(&b));
        let desc = format!("p={p} a={:?} b={:?}", a, b);
        macro_rules! go {
            ($op:expr, $call:expr, $x:expr) => {{
                match catch_unwind(AssertUnwindSafe(|| $call)) {
                    Ok(res) => check::<R, B>(mode, $op, p, &$x, res, fails, &desc),
                    Err(e) => {
                        let msg = e.downcast_ref::<String>().cloned().or(e.downcast_ref::<&str>().map(|s| s.to_string())).unwrap_or_default();
                        let e = fails.entry(format!("{}/{mode}/B{B}: PANIC {msg}", $op)).or_insert((0, desc.clone()));
                        e.0 += 1;
                    }
                }
            }};
        }
        go!("add", ctx.add(&a, &b), &va + &vb);
        go!("sub", ctx.sub(&a, &b), &va - &vb);
        go!("mul", ctx.mul(&a, &b), &va * &vb);
        go!("sqr", ctx.sqr(&a), &va * &va);
        go!("cubic", ctx.cubic(&a), &va * &va * &va);
        if !vb.is_zero() {
            go!("div", ctx.div(&a, &b), &va / &vb);
            go!("inv", ctx.inv(&b), BigRational::one() / &vb);
        }
        // sqrt: check via squares: exact x irrational mostly; use bracket test
        if !va.is_negative() {
            match catch_unwind(AssertUnwindSafe(|| ctx.sqrt(&a))) {
                Ok(res) => {
                    let (rr, flag) = match &res {
                        Approximation::Exact(v) => (v, None),
                        Approximation::Inexact(v, f) => (v, Some(*f)),
                    };
                    let rv = repr_val(rr.repr());
                    let mut fail = |k: &str| {
                        let e = fails.entry(format!("sqrt/{mode}/B{B}: {k}")).or_insert((0, desc.clone()));
                        e.0 += 1;
                    };
                    let sq = &rv * &rv;
                    if flag.is_none() != (sq == va) {
                        fail(if flag.is_none() { "Exact but not equal" } else { "Inexact but equal" });
                    } else if !va.is_zero() {
                        if rr.repr().digits() > p + 1 {
                            fail("more than p+1 digits");
                        }
                        // ulp from rv (sqrt bracket): e = ilog of true sqrt = floor(ilog(va)/2) roughly; compute via rv
                        // neighbours at spacing ulp: need (rv-ulp)^2 < va < (rv+ulp)^2
                        let e2 = ilog(&va, B as u64);
                        let e = e2.div_euclid(2);
                        let ulp_exp = e - p as i64 + 1;
                        let ulp = if ulp_exp >= 0 {
                            BigRational::from_integer(pow(B as u64, ulp_exp as u64))
                        } else {
                            BigRational::new(BigInt::one(), pow(B as u64, (-ulp_exp) as u64))
                        };
                        let lo = &rv - &ulp;
                        let hi = &rv + &ulp;
                        let lo_ok = lo.is_negative() || &lo * &lo < va;
                        if !(lo_ok && &hi * &hi > va) {
                            fail("error >= 1ulp");
                        } else {
                            let above = sq > va;
                            let below = sq < va;
                            match mode {
                                "Zero" | "Down" => {
                                    if above {
                                        fail("wrong side")
                                    }
                                }
                                "Away" | "Up" => {
                                    if below {
                                        fail("wrong side")
                                    }
                                }
                                _ => {
                                    let h = &ulp / BigInt::from(2);
                                    let l2 = &rv - &h;
                                    let h2 = &rv + &h;
                                    let l_ok = l2.is_negative() || &l2 * &l2 <= va;
                                    if !(l_ok && &h2 * &h2 >= va) {
                                        fail("error > 1/2ulp")
                                    }
                                }
                            }
                            match flag {
                                Some(Rounding::AddOne) if !above => fail("AddOne but r<=x"),
                                Some(Rounding::SubOne) if !below => fail("SubOne but r>=x"),
                                _ => {}
                            }
                        }
                    }
                }
                Err(e) => {
                    let msg = e.downcast_ref::<String>().cloned().or(e.downcast_ref::<&str>().map(|s| s.to_string())).unwrap_or_default();
                    let e = fails.entry(format!("sqrt/{mode}/B{B}: PANIC {msg}")).or_insert((0, desc.clone()));
                    e.0 += 1;
                }
            }
        }
    }
    let _ = IBig::ONE.unsigned_abs();
}

fn main() {
    std::panic::set_hook(Box::new(|_| {}));
    let seed: u64 = std::env::args().nth(1).and_then(|s| s.parse().ok()).unwrap_or(12345);
    let iters: u64 = std::env::args().nth(2).and_then(|s| s.parse().ok()).unwrap_or(3000);
    let mut r = Rng(seed | 1);
    let mut fails = BTreeMap::new();
    macro_rules! all_modes {
        ($b:expr) => {
            run::<mode::Zero, $b>("Zero", &mut r, iters, &mut fails);
            run::<mode::Away, $b>("Away", &mut r, iters, &mut fails);
            run::<mode::Up, $b>("Up", &mut r, iters, &mut fails);
            run::<mode::Down, $b>("Down", &mut r, iters, &mut fails);
            run::<mode::HalfEven, $b>("HalfEven", &mut r, iters, &mut fails);
            run::<mode::HalfAway, $b>("HalfAway", &mut r, iters, &mut fails);
        };
    }
    all_modes!(2);
    all_modes!(10);
    all_modes!(3);
    all_modes!(16);
    all_modes!(36);
    // aggregate by op+kind
    let mut agg: BTreeMap<String, (u64, Vec<String>, String)> = BTreeMap::new();
    for (k, (c, d)) in &fails {
        let mut parts = k.splitn(2, ": ");
        let head = parts.next().unwrap();
        let kind = parts.next().unwrap();
        let op = head.split('/').next().unwrap();
        let e = agg.entry(format!("{op}: {kind}")).or_insert((0, vec![], d.clone()));
        e.0 += c;
        e.1.push(head.to_string());
    }
    for (k, (c, heads, d)) in &agg {
        println!("FAIL {k}: total={c} configs={} e.g. {} first: {d}", heads.len(), heads[0]);
    }
    println!("done");
}
