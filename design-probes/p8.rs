use dashu_int::{IBig, UBig};
use std::fmt;
struct Ref { neg: bool, prefix: &'static str, digits: String }
macro_rules! imp { ($t:ident) => { impl fmt::$t for Ref { fn fmt(&self, f: &mut fmt::Formatter) -> fmt::Result { f.pad_integral(!self.neg, self.prefix, &self.digits) } } } }
imp!(Display); imp!(LowerHex); imp!(UpperHex); imp!(Binary); imp!(Octal);
fn main() {
    let vals: Vec<i128> = vec![0, 1, -1, 255, -255, 4096, -4096, i64::MAX as i128, -(1i128<<100), (1i128<<100) + 12345];
    let mut bad = 0; let mut n = 0;
    macro_rules! t { ($fmt:literal, $tr:ident, $radix:expr, $prefix:expr, $upper:expr) => {
        for &v in &vals { for w in [0usize, 1, 5, 12, 40] {
            let i = IBig::from(v);
            let mag = v.unsigned_abs();
            let mut digits = match $radix { 2 => format!("{:b}", mag), 8 => format!("{:o}", mag), 16 => format!("{:x}", mag), _ => format!("{}", mag) };
            if $upper { digits = digits.to_uppercase(); }
            let r = Ref { neg: v < 0, prefix: $prefix, digits };
            let got = format!($fmt, i, w = w);
            let want = format!($fmt, r, w = w);
            n += 1;
            if got != want { bad += 1; if bad < 15 { println!("{} v={v} w={w}: got {:?} want {:?}", $fmt, got, want); } }
            if v >= 0 { let u = UBig::try_from(i.clone()).unwrap(); let g2 = format!($fmt, u, w = w); let p = format!($fmt, v as u128, w = w); if g2 != p { bad += 1; if bad < 15 { println!("UBig {} v={v} w={w}: got {:?} prim {:?}", $fmt, g2, p); } } }
        } }
    } }
    t!("{:w$}", Display, 10, "", false); t!("{:<w$}", Display, 10, "", false); t!("{:^+w$}", Display, 10, "", false); t!("{:*>+w$}", Display, 10, "", false); t!("{:+0w$}", Display, 10, "", false);
    t!("{:#w$x}", LowerHex, 16, "0x", false); t!("{:#0w$x}", LowerHex, 16, "0x", false); t!("{:*^#w$X}", UpperHex, 16, "0x", true); t!("{:+#0w$b}", Binary, 2, "0b", false); t!("{:<#w$o}", Octal, 8, "0o", false); t!("{:0w$o}", Octal, 8, "", false); t!("{:#<0w$x}", LowerHex, 16, "", false);
    println!("compared {n}, bad {bad}");
}
