use dashu_int::{UBig, IBig};
use dashu_base::*;
fn main() {
    for w in [vec![2u64,0,0], vec![3,0,0], vec![u64::MAX, 1, 5], vec![u64::MAX, u64::MAX, 5], vec![0,0,1], vec![1,0,1], vec![7, 8, 9]] {
        let a = UBig::from_words(&w);
        println!("{:x?} trailing_ones={:?} trailing_zeros={:?}", w, a.trailing_ones(), a.trailing_zeros());
    }
    // sqrt_rem minimal search
    let mut s: u64 = 88172645463325252;
    let mut next = || { s ^= s << 13; s ^= s >> 7; s ^= s << 17; s };
    for len in 1..12usize {
        let mut bad = 0; let mut first = None;
        for _ in 0..300 {
            let w: Vec<u64> = (0..len).map(|_| next()).collect();
            let a = UBig::from_words(&w);
            let (r, rem) = a.sqrt_rem();
            if &r * &r + &rem != a || rem > &r * 2u8 { bad += 1; if first.is_none() { first = Some((w.clone(), rem.as_words().len(), r.as_words().len())); } }
        }
        println!("len={len} bad={bad} first={:x?}", first);
    }
    let _ = IBig::ZERO;
}
