// calibration probe for C11 (non-rigorous high precision reference, 192 guard bits)
use dashu_base::{Approximation, Sign};
use dashu_float::round::{mode, Round, Rounding};
use dashu_float::{Context, Repr};
use dashu_int::{IBig, Word};
use num_bigint::{BigInt, BigUint, Sign as NSign};
use num_rational::BigRational;
use num_traits::{One, Signed, ToPrimitive, Zero};
use std::collections::BTreeMap;
use std::panic::{catch_unwind, AssertUnwindSafe};

struct Rng(u64);
impl Rng {
    fn next(&mut self) -> u64 {
        self.0 ^= self.0 << 13;
        self.0 ^= self.0 >> 7;
        self.0 ^= self.0 << 17;
        self.0
    }
    fn below(&mut self, n: u64) -> u64 {
        self.next() % n
    }
}
fn di2n(d: &IBig) -> BigInt {
    let (s, w) = d.as_sign_words();
    let mut digits = Vec::new();
    for x in w {
        digits.push(*x as u32);
        digits.push((*x >> 32) as u32);
    }
    BigInt::from_biguint(if s == Sign::Negative { NSign::Minus } else { NSign::Plus }, BigUint::new(digits))
}
fn powi(b: u64, e: u64) -> BigInt {
    num_traits::pow(BigInt::from(b), e as usize)
}
fn repr_val<const B: Word>(r: &Repr<B>) -> BigRational {
    let s = di2n(r.significand());
    let e = r.exponent();
    if e >= 0 {
        BigRational::from_integer(s * powi(B as u64, e as u64))
    } else {
        BigRational::new(s, powi(B as u64, (-e) as u64))
    }
}
// fixed point: value = V / 2^w
fn to_fix(x: &BigRational, w: usize) -> BigInt {
    ((x.numer() << w) / x.denom()).clone()
}
fn from_fix(v: &BigInt, w: usize) -> BigRational {
    BigRational::new(v.clone(), BigInt::one() << w)
}
fn exp_fix(x: &BigRational, w: usize) -> BigRational {
    if x.is_negative() {
        return BigRational::one() / exp_fix(&-x, w);
    }
    // reduce
    let xf = x.to_f64().unwrap_or(0.0).abs();
    let k = if xf > 0.0 { (xf.log2().ceil() as i64 + 8).max(0) as usize } else { 0 };
    let ww = w + k + 64;
    let y = x / BigRational::from_integer(BigInt::one() << k);
    let yf = to_fix(&y, ww);
    let one = BigInt::one() << ww;
    let mut sum = one.clone();
    let mut term = one.clone();
    let mut n = 1u32;
    loop {
        term = (&term * &yf) >> ww;
        term = term / BigInt::from(n);
        if term.is_zero() {
            break;
        }
        sum += &term;
        n += 1;
    }
    for _ in 0..k {
        sum = (&sum * &sum) >> ww;
    }
    from_fix(&sum, ww)
}
fn ln_fix(x: &BigRational, w: usize) -> BigRational {
    // Newton on exp, start from f64 estimate via bit lengths
    let nb = x.numer().bits() as f64;
    let db = x.denom().bits() as f64;
    let mut y = {
        let approx = if (nb - db).abs() < 900.0 { x.to_f64().unwrap().ln() } else { (nb - db) * std::f64::consts::LN_2 };
        BigRational::from_float(approx).unwrap()
    };
    let mut prec = 50usize;
    while prec < w + 32 {
        prec *= 2;
        let e = exp_fix(&y, prec + 16);
        let two = BigRational::from_integer(BigInt::from(2));
        let d = two * (x - &e) / (x + &e);
        y = y + d;
        // truncate y to prec+32 bits to keep sizes bounded
        let sh = prec + 64;
        y = from_fix(&to_fix(&y, sh), sh);
    }
    y
}
fn ilog(x: &BigRational, b: u64) -> i64 {
    let x = x.abs();
    let bb = BigRational::from_integer(BigInt::from(b));
    let mut e: i64 = 0;
    let mut p = BigRational::one();
    if x >= p {
        while &p * &bb <= x {
            p = p * &bb;
            e += 1;
        }
    } else {
        while p > x {
            p = p / &bb;
            e -= 1;
        }
    }
    e
}
fn gen<const B: Word>(r: &mut Rng, p: usize, positive: bool) -> Repr<B> {
    let nd = 1 + r.below(p as u64) as usize;
    let mut s = String::new();
    for i in 0..nd {
        let d = if i == 0 { 1 + r.below(B as u64 - 1) } else { r.below(B as u64) };
        s.push(std::char::from_digit(d as u32, B as u32).unwrap());
    }
    let mut sig = IBig::from_str_radix(&s, B as u32).unwrap();
    if !positive && r.below(2) == 0 {
        sig = -sig;
    }
    let e = match r.below(4) {
        0 => -(nd as isize),
        1 => -(nd as isize) + r.below(4) as isize - 1,
        2 => -(nd as isize) - r.below(12) as isize,
        _ => -(r.below(2 * nd as u64 + 2) as isize),
    };
    Repr::<B>::new(sig, e)
}
fn judge<R: Round, const B: Word>(op: &str, mode: &str, p: usize, truth: &BigRational, res: Approximation<dashu_float::FBig<R, B>, Rounding>, fails: &mut BTreeMap<String, (u64, String, f64)>, desc: &str) {
    let (r, flag) = match &res {
        Approximation::Exact(v) => (v, None),
        Approximation::Inexact(v, f) => (v, Some(*f)),
    };
    let rv = repr_val(r.repr());
    if truth.is_zero() {
        return;
    }
    let e = ilog(truth, B as u64);
    let ue = e - p as i64 + 1;
    let ulp = if ue >= 0 { BigRational::from_integer(powi(B as u64, ue as u64)) } else { BigRational::new(BigInt::one(), powi(B as u64, (-ue) as u64)) };
    let err = ((&rv - truth) / &ulp).to_f64().unwrap();
    let mut fail = |k: &str| {
        if k.contains("1ulp") { println!("CASE {op}/{mode}/B{B} {desc} err={err:.3} got={:?}", r.repr()); }
        let e2 = fails.entry(format!("{op}/{mode}/B{B}: {k}")).or_insert((0, desc.to_string(), 0.0));
        e2.0 += 1;
        if err.abs() > e2.2 {
            e2.2 = err.abs();
            e2.1 = desc.to_string();
        }
    };
    if flag.is_none() {
        fail("flagged Exact");
    }
    if err.abs() >= 1.0 {
        fail("error >= 1ulp");
    }
    if r.repr().digits() > p + 1 {
        fail("digits > p+1");
    }
}
fn run<R: Round, const B: Word>(mode: &str, r: &mut Rng, iters: u64, fails: &mut BTreeMap<String, (u64, String, f64)>) {
    for _ in 0..iters {
        let p = match r.below(4) {
            0 => 1 + r.below(4) as usize,
            1 => 5 + r.below(15) as usize,
            2 => 20 + r.below(40) as usize,
            _ => 1 + r.below(30) as usize,
        };
        let ctx = Context::<R>::new(p);
        let x = gen::<B>(r, p, false);
        let xv = repr_val(&x);
        let w = (p as f64 * (B as f64).log2()) as usize + 192;
        let desc = format!("p={p} x={:?}", x);
        if xv.is_zero() {
            continue;
        }
        macro_rules! go {
            ($op:expr, $call:expr, $truth:expr) => {{
                match catch_unwind(AssertUnwindSafe(|| $call)) {
                    Ok(res) => {
                        let t = $truth;
                        judge::<R, B>($op, mode, p, &t, res, fails, &desc)
                    }
                    Err(e) => {
                        let msg = e.downcast_ref::<String>().cloned().or(e.downcast_ref::<&str>().map(|s| s.to_string())).unwrap_or_default();
                        let e2 = fails.entry(format!("{}/{mode}/B{B}: PANIC {msg}", $op)).or_insert((0, desc.clone(), 0.0));
                        e2.0 += 1;
                    }
                }
            }};
        }
        if xv.abs() < BigRational::from_integer(BigInt::from(200)) {
            go!("exp", ctx.exp(&x), exp_fix(&xv, w));
            go!("exp_m1", ctx.exp_m1(&x), exp_fix(&xv, w + 64 + 4 * p * 6) - BigRational::one());
        }
        if xv.is_positive() && !xv.is_one() {
            go!("ln", ctx.ln(&x), ln_fix(&xv, w + 64));
        }
        let x1 = &xv + BigRational::one();
        if x1.is_positive() {
            go!("ln_1p", ctx.ln_1p(&x), ln_fix(&x1, w + 64 + 4 * p * 6));
        }
    }
}
fn main() {
    std::panic::set_hook(Box::new(|_| {}));
    let seed: u64 = std::env::args().nth(1).and_then(|s| s.parse().ok()).unwrap_or(12345);
    let iters: u64 = std::env::args().nth(2).and_then(|s| s.parse().ok()).unwrap_or(300);
    let mut r = Rng(seed | 1);
    let mut fails = BTreeMap::new();
    macro_rules! all_modes {
        ($b:expr) => {
            run::<mode::Zero, $b>("Zero", &mut r, iters, &mut fails);
            run::<mode::Up, $b>("Up", &mut r, iters, &mut fails);
            run::<mode::Down, $b>("Down", &mut r, iters, &mut fails);
            run::<mode::HalfEven, $b>("HalfEven", &mut r, iters, &mut fails);
            run::<mode::HalfAway, $b>("HalfAway", &mut r, iters, &mut fails);
            run::<mode::Away, $b>("Away", &mut r, iters, &mut fails);
        };
    }
    all_modes!(2);
    all_modes!(10);
    all_modes!(3);
    all_modes!(16);
    let mut agg: BTreeMap<String, (u64, usize, String, f64)> = BTreeMap::new();
    for (k, (c, d, m)) in &fails {
        let mut parts = k.splitn(2, ": ");
        let head = parts.next().unwrap();
        let kind = parts.next().unwrap();
        let op = head.split('/').next().unwrap();
        let e = agg.entry(format!("{op}: {kind}")).or_insert((0, 0, String::new(), 0.0));
        e.0 += c;
        e.1 += 1;
        if *m >= e.3 {
            e.3 = *m;
            e.2 = format!("{head} {d}");
        }
    }
    for (k, (c, n, d, m)) in &agg {
        println!("FAIL {k}: total={c} configs={n} max_err_ulp={m:.3} worst: {d}");
    }
    println!("done");
}
