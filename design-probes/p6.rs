use dashu_base::*;
use dashu_int::{UBig, IBig, fast_div::ConstDivisor};
use num_bigint::BigUint;
use std::panic::catch_unwind;
fn n(d: &UBig) -> BigUint { BigUint::parse_bytes(d.to_string().as_bytes(), 10).unwrap() }
fn main() {
    std::panic::set_hook(Box::new(|_| {}));
    println!("encode(3,-151) = {:?}  (want Inexact(1.4e-45, Positive))", f32::encode(3, -151));
    println!("encode(1,-150) = {:?}  (tie -> 0)", f32::encode(1, -150));
    println!("encode(1,32767) = {:?}", catch_unwind(|| f32::encode(1, i16::MAX)));
    println!("encode(1,-32768) = {:?}", catch_unwind(|| f32::encode(1, i16::MIN)));
    println!("f64 encode(3,-1076) = {:?}", f64::encode(3, -1076));
    println!("f64 encode(1,32767) = {:?}", catch_unwind(|| f64::encode(1, i16::MAX)));
    // modular smoke
    let mut s: u64 = 0x9E3779B97F4A7C15;
    let mut next = || { s ^= s << 13; s ^= s >> 7; s ^= s << 17; s };
    let mut bad = std::collections::BTreeMap::<String, (u32, String)>::new();
    for it in 0..20000 {
        let ml = [1usize,1,2,2,3,4,5,33,40][(next() % 9) as usize];
        let mut mw: Vec<u64> = (0..ml).map(|_| next()).collect();
        match next() % 6 { 0 => { let l = mw.len(); mw[l-1] >>= next() % 64; if mw[l-1]==0 { mw[l-1]=1; } }, 1 => { mw[0] = 0; }, 2 => { for w in mw.iter_mut() { *w = 0; } let l = mw.len(); mw[l-1] = 1 << (next()%64); }, 3 => { if it % 50 == 0 { mw = vec![1]; } }, _ => {} }
        let m = UBig::from_words(&mw);
        if m.is_zero() { continue; }
        let al = [0usize,1,2,3,5,40,80][(next() % 7) as usize];
        let a = UBig::from_words(&(0..al).map(|_| next()).collect::<Vec<_>>());
        let bl = [0usize,1,2,3,5,40,80][(next() % 7) as usize];
        let b = UBig::from_words(&(0..bl).map(|_| next()).collect::<Vec<_>>());
        let e = UBig::from_words(&(0..(next()%3) as usize).map(|_| next() >> (next()%64)).collect::<Vec<_>>());
        let desc = format!("m={:x?} a_len={al} b_len={bl} e={e}", &mw[..mw.len().min(3)]);
        let (nm, na, nb) = (n(&m), n(&a), n(&b));
        let r = catch_unwind(|| {
            let ring = ConstDivisor::new(m.clone());
            let (x, y) = (ring.reduce(a.clone()), ring.reduce(b.clone()));
            let ia = ring.reduce(-IBig::from(a.clone()));
            ((&x + &y).residue(), (&x - &y).residue(), (&x * &y).residue(), x.pow(&e).residue(), x.clone().inv().map(|v| (v * &x).residue()), ia.residue(), x.sqr().residue(), x.clone().dbl().residue(),
             (&a / &ring), (&a % &ring))
        });
        match r {
            Err(e) => { let msg = e.downcast_ref::<String>().cloned().or(e.downcast_ref::<&str>().map(|s| s.to_string())).unwrap_or_default(); let k = format!("PANIC {}", msg.chars().map(|c| if c.is_ascii_digit() {'#'} else {c}).collect::<String>()); bad.entry(k).or_insert((0, desc.clone())).0 += 1; }
            Ok((add, sub, mul, pw, inv, neg, sq, dbl, q, rem)) => {
                let mut f = |k: &str| { bad.entry(k.to_string()).or_insert((0, desc.clone())).0 += 1; };
                if n(&add) != (&na + &nb) % &nm { f("add"); }
                if n(&sub) != ((&na % &nm) + &nm - (&nb % &nm)) % &nm { f("sub"); }
                if n(&mul) != (&na * &nb) % &nm { f("mul"); }
                if n(&pw) != na.modpow(&n(&e), &nm) { f("pow"); }
                if n(&neg) != (&nm - (&na % &nm)) % &nm { f("neg"); }
                if n(&sq) != (&na * &na) % &nm { f("sqr"); }
                if n(&dbl) != (&na * 2u8) % &nm { f("dbl"); }
                if n(&q) != &na / &nm { f("constdiv /"); }
                if n(&rem) != &na % &nm { f("constdiv %"); }
                use num_integer::Integer;
                let g = na.gcd(&nm);
                let coprime = g == BigUint::from(1u8);
                match inv { Some(one) => { if !coprime { f("inv Some but not coprime"); } else if n(&one) != BigUint::from(1u8) % &nm { f("inv wrong"); } }, None => if coprime { f("inv None but coprime"); } }
            }
        }
    }
    for (k, (c, d)) in &bad { println!("FAIL {k}: {c} first {d}"); }
    println!("modular done");
}
