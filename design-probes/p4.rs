// exploratory probe: conversions / rounding / cross-type order / simplest
use dashu_base::*;
use dashu_float::round::{mode, Rounding};
use dashu_float::{DBig, FBig};
use dashu_int::{IBig, UBig};
use dashu_ratio::RBig;
use num_bigint::{BigInt, BigUint, Sign as NSign};
use num_rational::BigRational;
use num_traits::{One, Signed as _, ToPrimitive, Zero};
use std::collections::BTreeMap;
use std::panic::{catch_unwind, AssertUnwindSafe};
use std::str::FromStr;

struct Rng(u64);
impl Rng {
    fn next(&mut self) -> u64 {
        self.0 ^= self.0 << 13;
        self.0 ^= self.0 >> 7;
        self.0 ^= self.0 << 17;
        self.0
    }
    fn below(&mut self, n: u64) -> u64 {
        self.next() % n
    }
}
fn di2n(d: &IBig) -> BigInt {
    let (s, w) = d.as_sign_words();
    let mut digits = Vec::new();
    for x in w {
        digits.push(*x as u32);
        digits.push((*x >> 32) as u32);
    }
    BigInt::from_biguint(if s == Sign::Negative { NSign::Minus } else { NSign::Plus }, BigUint::new(digits))
}
fn n2di(n: &BigInt) -> IBig {
    IBig::from_str_radix(&n.to_str_radix(16), 16).unwrap()
}
fn f64_exact(f: f64) -> BigRational {
    BigRational::from_float(f).unwrap()
}
// correctly rounded (RNE) f64 of a rational, via integer arithmetic
fn rne_f64(x: &BigRational) -> f64 {
    if x.is_zero() {
        return 0.0;
    }
    let neg = x.is_negative();
    let a = x.abs();
    // find e such that 2^52 <= a / 2^e < 2^53, with e >= -1074
    let mut e: i64 = a.numer().bits() as i64 - a.denom().bits() as i64 - 53;
    let scale = |e: i64| -> BigRational {
        if e >= 0 {
            &a / BigRational::from_integer(BigInt::one() << e as usize)
        } else {
            &a * BigRational::from_integer(BigInt::one() << (-e) as usize)
        }
    };
    let two53 = BigRational::from_integer(BigInt::one() << 53usize);
    let two52 = BigRational::from_integer(BigInt::one() << 52usize);
    loop {
        let s = scale(e);
        if s >= two53 {
            e += 1
        } else if s < two52 {
            e -= 1
        } else {
            break;
        }
    }
    if e < -1074 {
        e = -1074;
    }
    let s = scale(e);
    let fl = s.floor();
    let rem = &s - &fl;
    let mut m = fl.to_integer();
    let half = BigRational::new(BigInt::one(), BigInt::from(2));
    if rem > half || (rem == half && (&m % BigInt::from(2)) == BigInt::one()) {
        m += BigInt::one();
    }
    let mf = m.to_f64().unwrap(); // <= 2^53 exact
    let v = if e > 1100 { f64::INFINITY } else { mf * 2f64.powi(e.max(-1074) as i32 / 2) * 2f64.powi(e.max(-1074) as i32 - e.max(-1074) as i32 / 2) };
    if neg {
        -v
    } else {
        v
    }
}

fn main() {
    std::panic::set_hook(Box::new(|_| {}));
    let seed: u64 = std::env::args().nth(1).and_then(|s| s.parse().ok()).unwrap_or(12345);
    let iters: u64 = std::env::args().nth(2).and_then(|s| s.parse().ok()).unwrap_or(3000);
    let mut r = Rng(seed | 1);
    let mut fails: BTreeMap<String, (u64, String)> = BTreeMap::new();
    macro_rules! fail {
        ($k:expr, $d:expr) => {{
            let e = fails.entry($k.to_string()).or_insert((0, $d));
            e.0 += 1;
        }};
    }
    macro_rules! guard {
        ($k:expr, $d:expr, $body:expr) => {{
            match catch_unwind(AssertUnwindSafe(|| $body)) {
                Ok(v) => Some(v),
                Err(e) => {
                    let msg = e.downcast_ref::<String>().cloned().or(e.downcast_ref::<&str>().map(|s| s.to_string())).unwrap_or_default();
                    let msg: String = msg.chars().map(|c| if c.is_ascii_digit() { '#' } else { c }).collect();
                    fail!(format!("{} PANIC {}", $k, msg), $d);
                    None
                }
            }
        }};
    }
    for it in 0..iters {
        // random rational with various sizes
        let nb = [10u64, 24, 25, 53, 54, 55, 64, 100, 128, 200, 1100][r.below(11) as usize];
        let db = [1u64, 2, 10, 24, 53, 54, 64, 100, 1100, 1200][r.below(10) as usize];
        let mut num = BigInt::from(r.next());
        while num.bits() < nb {
            num = (num << 60usize) + BigInt::from(r.next() >> 4);
        }
        let sh = (num.bits() - nb) as usize; num = num >> sh;
        let mut den = BigInt::from(r.next() | 1);
        while den.bits() < db {
            den = (den << 60usize) + BigInt::from(r.next() >> 4);
        }
        let sh = (den.bits() - db) as usize; den = den >> sh;
        if den.is_zero() {
            den = BigInt::one();
        }
        if r.below(5) == 0 {
            den = BigInt::one() << (db as usize - 1);
        }
        if r.below(2) == 0 {
            num = -num;
        }
        let q = BigRational::new(num.clone(), den.clone());
        let dq = RBig::from_parts(n2di(q.numer()), UBig::try_from(n2di(q.denom())).unwrap());
        let desc = format!("q={}/{}", q.numer(), q.denom());
        // RBig::to_f64
        if let Some(res) = guard!("rbig.to_f64", desc.clone(), dq.to_f64()) {
            let want = rne_f64(&q);
            let (v, flag) = match res {
                Approximation::Exact(v) => (v, None),
                Approximation::Inexact(v, s) => (v, Some(s)),
            };
            if v.to_bits() != want.to_bits() && !(v == 0.0 && want == 0.0) {
                fail!("rbig.to_f64 value", format!("{desc} got {v:e} want {want:e}"));
            } else if v.is_finite() {
                let ev = f64_exact(v);
                match flag {
                    None => {
                        if ev != q {
                            fail!("rbig.to_f64 Exact but inexact", desc.clone())
                        }
                    }
                    Some(s) => {
                        if ev == q {
                            fail!("rbig.to_f64 Inexact but exact", desc.clone())
                        } else if (ev > q) != (s == Sign::Positive) {
                            fail!("rbig.to_f64 wrong error sign", desc.clone())
                        }
                    }
                }
            }
        }
        // integer to_f64 flags
        if it % 3 == 0 {
            let i = n2di(&num);
            if let Some(res) = guard!("ibig.to_f64", desc.clone(), i.to_f64()) {
                let qi = BigRational::from_integer(num.clone());
                let want = rne_f64(&qi);
                let (v, flag) = match res {
                    Approximation::Exact(v) => (v, None),
                    Approximation::Inexact(v, s) => (v, Some(s)),
                };
                if v.to_bits() != want.to_bits() {
                    fail!("ibig.to_f64 value", desc.clone());
                } else if v.is_finite() {
                    let ev = f64_exact(v);
                    match flag {
                        None => {
                            if ev != qi {
                                fail!("ibig.to_f64 Exact but inexact", desc.clone())
                            }
                        }
                        Some(s) => {
                            if ev == qi {
                                fail!("ibig.to_f64 Inexact but exact", desc.clone())
                            } else if (ev > qi) != (s == Sign::Positive) {
                                fail!("ibig.to_f64 wrong error sign", desc.clone())
                            }
                        }
                    }
                }
            }
        }
        // RBig rounding
        if let Some((t, f, c, rd)) = guard!("rbig.round", desc.clone(), (dq.trunc(), dq.floor(), dq.ceil(), dq.round())) {
            if di2n(&t) != q.trunc().to_integer() {
                fail!("rbig.trunc", desc.clone())
            }
            if di2n(&f) != q.floor().to_integer() {
                fail!("rbig.floor", desc.clone())
            }
            if di2n(&c) != q.ceil().to_integer() {
                fail!("rbig.ceil", desc.clone())
            }
            // ties away from zero
            let half = BigRational::new(BigInt::one(), BigInt::from(2));
            let want = if q.is_negative() { -((-&q + &half).floor().to_integer()) } else { (&q + &half).floor().to_integer() };
            if di2n(&rd) != want {
                fail!("rbig.round", desc.clone())
            }
        }
        // decimal float: build from q by to_float then round ops
        let p = 1 + r.below(20) as usize;
        if let Some(fl) = guard!("rbig.to_float", desc.clone(), dq.to_float::<mode::HalfEven, 10>(p)) {
            let (f, flag) = match fl {
                Approximation::Exact(v) => (v, None),
                Approximation::Inexact(v, s) => (v, Some(s)),
            };
            // value of f
            let fv = {
                let s = di2n(f.repr().significand());
                let e = f.repr().exponent();
                if e >= 0 {
                    BigRational::from_integer(s * num_traits::pow(BigInt::from(10), e as usize))
                } else {
                    BigRational::new(s, num_traits::pow(BigInt::from(10), (-e) as usize))
                }
            };
            // expected: RNE to p digits
            let mut e10: i64 = 0;
            {
                let a = q.abs();
                let ten = BigRational::from_integer(BigInt::from(10));
                let mut pw = BigRational::one();
                if a >= pw {
                    while &pw * &ten <= a {
                        pw = pw * &ten;
                        e10 += 1;
                    }
                } else {
                    while pw > a {
                        pw = pw / &ten;
                        e10 -= 1;
                    }
                }
            }
            let ue = e10 - p as i64 + 1;
            let ulp = if ue >= 0 { BigRational::from_integer(num_traits::pow(BigInt::from(10), ue as usize)) } else { BigRational::new(BigInt::one(), num_traits::pow(BigInt::from(10), (-ue) as usize)) };
            let s = &q / &ulp;
            let fl = s.floor();
            let rem = &s - &fl;
            let half = BigRational::new(BigInt::one(), BigInt::from(2));
            let mut m = fl.to_integer();
            if rem > half || (rem == half && (&m % BigInt::from(2)) != BigInt::zero()) {
                m += BigInt::one();
            }
            let want = BigRational::from_integer(m) * &ulp;
            if fv != want {
                fail!("rbig.to_float(HalfEven,10) not correctly rounded", format!("{desc} p={p} got {f}"));
            } else {
                match flag {
                    None if fv != q => fail!("rbig.to_float Exact but inexact", desc.clone()),
                    Some(_) if fv == q => fail!("rbig.to_float Inexact but exact", desc.clone()),
                    Some(Rounding::AddOne) if fv < q => fail!("rbig.to_float AddOne but below", desc.clone()),
                    Some(Rounding::SubOne) if fv > q => fail!("rbig.to_float SubOne but above", desc.clone()),
                    _ => {}
                }
            }
            // FBig rounding ops on f
            let fdesc = format!("f={:?} prec={}", f.repr(), f.precision());
            if let Some((t, fl_, c, rd, fr)) = guard!("fbig.round_ops", fdesc.clone(), (f.trunc(), f.floor(), f.ceil(), f.round(), f.fract())) {
                let val = |x: &FBig<mode::HalfEven, 10>| {
                    let s = di2n(x.repr().significand());
                    let e = x.repr().exponent();
                    if e >= 0 {
                        BigRational::from_integer(s * num_traits::pow(BigInt::from(10), e as usize))
                    } else {
                        BigRational::new(s, num_traits::pow(BigInt::from(10), (-e) as usize))
                    }
                };
                if val(&t) != fv.trunc() {
                    fail!("fbig.trunc", fdesc.clone())
                }
                if val(&fl_) != fv.floor() {
                    fail!("fbig.floor", fdesc.clone())
                }
                if val(&c) != fv.ceil() {
                    fail!("fbig.ceil", fdesc.clone())
                }
                let want = if fv.is_negative() { -((-&fv + &half).floor()) } else { (&fv + &half).floor() };
                if val(&rd) != want {
                    fail!("fbig.round", fdesc.clone())
                }
                if val(&fr) != &fv - fv.trunc() {
                    fail!("fbig.fract", fdesc.clone())
                }
            }
            if let Some(ti) = guard!("fbig.to_int", fdesc.clone(), f.to_int()) {
                let (v, flag) = match ti {
                    Approximation::Exact(v) => (v, None),
                    Approximation::Inexact(v, s) => (v, Some(s)),
                };
                let fl = fv.floor();
                let rem = &fv - &fl;
                let mut m = fl.to_integer();
                if rem > half || (rem == half && (&m % BigInt::from(2)) != BigInt::zero()) {
                    m += BigInt::one();
                }
                if di2n(&v) != m {
                    fail!("fbig.to_int(HalfEven) value", fdesc.clone())
                } else if flag.is_none() != fv.is_integer() {
                    fail!("fbig.to_int flag", fdesc.clone())
                }
            }
            // display -> parse roundtrip
            if let Some(s) = guard!("fbig.display", fdesc.clone(), f.to_string()) {
                match guard!("fbig.parse", format!("{fdesc} str={s}"), FBig::<mode::HalfEven, 10>::from_str(&s)) {
                    Some(Ok(back)) => {
                        if back != f {
                            fail!("fbig display/parse roundtrip", format!("{fdesc} str={s}"))
                        }
                    }
                    Some(Err(_)) => fail!("fbig display unparsable", format!("{fdesc} str={s}")),
                    None => {}
                }
            }
            // to_f64 of decimal float
            if let Some(res) = guard!("dbig.to_f64", fdesc.clone(), f.to_f64()) {
                let want = rne_f64(&fv);
                let v = res.value();
                if v.to_bits() != want.to_bits() && !(v == 0.0 && want == 0.0) {
                    fail!("dbig.to_f64 value", format!("{fdesc} got {v:e} want {want:e}"));
                }
            }
            // to_binary and back: error bound
            if let Some(res) = guard!("dbig.to_binary", fdesc.clone(), f.clone().with_rounding::<mode::Zero>().with_base::<2>()) {
                let b = res.value();
                let s = di2n(b.repr().significand());
                let e = b.repr().exponent();
                let bv = if e >= 0 { BigRational::from_integer(s << e as usize) } else { BigRational::new(s, BigInt::one() << (-e) as usize) };
                if bv.abs() > fv.abs() {
                    fail!("with_base<2>(Zero) wrong side", fdesc.clone())
                }
                if b.precision() > 0 && b.repr().digits() > b.precision() + 1 {
                    fail!("with_base<2> digits > precision+1", format!("{fdesc} -> {:?} prec {}", b.repr(), b.precision()))
                }
            }
            // cross-type NumOrd: f vs dq
            {
                use num_order::NumOrd;
                if let Some(o) = guard!("numord f/q", fdesc.clone(), f.num_partial_cmp(&dq)) {
                    if o != Some(fv.cmp(&q)) {
                        fail!("NumOrd FBig vs RBig", format!("{fdesc} {desc}"))
                    }
                }
                let i = n2di(&num);
                if let Some(o) = guard!("numord q/i", desc.clone(), dq.num_partial_cmp(&i)) {
                    if o != Some(q.cmp(&BigRational::from_integer(num.clone()))) {
                        fail!("NumOrd RBig vs IBig", desc.clone())
                    }
                }
                let x = rne_f64(&q);
                if let Some(o) = guard!("numord q/f64", desc.clone(), dq.num_partial_cmp(&x)) {
                    if x.is_finite() && o != Some(q.cmp(&f64_exact(x))) {
                        fail!("NumOrd RBig vs f64", desc.clone())
                    }
                }
                if let Some(o) = guard!("absord f/i", fdesc.clone(), f.abs_cmp(&i)) {
                    if o != fv.abs().cmp(&BigRational::from_integer(num.abs())) {
                        fail!("AbsOrd FBig vs IBig", format!("{fdesc} i={i}"))
                    }
                }
            }
        }
        // small-number simplest_in vs brute force
        {
            let a = BigRational::new(BigInt::from(r.below(60) as i64 - 20), BigInt::from(1 + r.below(30)));
            let b = BigRational::new(BigInt::from(r.below(60) as i64 - 20), BigInt::from(1 + r.below(30)));
            if a != b {
                let (lo, hi) = if a < b { (a.clone(), b.clone()) } else { (b.clone(), a.clone()) };
                let da = RBig::from_parts(n2di(a.numer()), UBig::try_from(n2di(a.denom())).unwrap());
                let db = RBig::from_parts(n2di(b.numer()), UBig::try_from(n2di(b.denom())).unwrap());
                let d2 = format!("simplest_in({a},{b})");
                if let Some(s) = guard!("simplest_in", d2.clone(), RBig::simplest_in(da, db)) {
                    // brute force
                    let mut best: Option<BigRational> = None;
                    'o: for d in 1..2000i64 {
                        // candidates n/d in (lo,hi): smallest |n| then positive first
                        let lo_n = (&lo * BigInt::from(d)).floor().to_integer();
                        let hi_n = (&hi * BigInt::from(d)).ceil().to_integer();
                        let mut cands = vec![];
                        let mut n = lo_n.clone();
                        while n <= hi_n {
                            let c = BigRational::new(n.clone(), BigInt::from(d));
                            if c > lo && c < hi && c.denom() == &BigInt::from(d) {
                                cands.push(c);
                            }
                            n += BigInt::one();
                            if cands.len() > 50 {
                                break;
                            }
                        }
                        if !cands.is_empty() {
                            cands.sort_by(|x, y| x.numer().abs().cmp(&y.numer().abs()).then(y.numer().cmp(x.numer())));
                            best = Some(cands[0].clone());
                            break 'o;
                        }
                    }
                    let sv = BigRational::new(di2n(s.numerator()), di2n(&IBig::from(s.denominator().clone())));
                    if Some(&sv) != best.as_ref() {
                        fail!("simplest_in not simplest", format!("{d2} got {s} want {:?}", best.map(|b| b.to_string())))
                    }
                }
            }
        }
        let _ = DBig::ONE;
    }
    for (k, (c, d)) in &fails {
        let d: String = d.chars().take(260).collect();
        println!("FAIL {k}: count={c} first: {d}");
    }
    println!("done");
}
