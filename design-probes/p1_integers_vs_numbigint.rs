// exploratory differential probe (throwaway) -- integers vs num-bigint
use dashu_base::*;
use dashu_int::{IBig, UBig, Word};
use num_bigint::{BigInt, BigUint, Sign as NSign};
use num_integer::Integer;
use num_traits::{One, Signed as _, ToPrimitive, Zero};
use std::collections::BTreeMap;
use std::panic::{catch_unwind, AssertUnwindSafe};

struct Rng(u64);
impl Rng {
    fn next(&mut self) -> u64 {
        self.0 ^= self.0 << 13;
        self.0 ^= self.0 >> 7;
        self.0 ^= self.0 << 17;
        self.0
    }
    fn below(&mut self, n: u64) -> u64 {
        self.next() % n
    }
}

fn gen_len(r: &mut Rng) -> usize {
    match r.below(12) {
        0 => 0,
        1 => 1,
        2 => 2,
        3 => 3,
        4 => 4,
        5 => 5 + r.below(20) as usize,
        6 => 23 + r.below(4) as usize,
        7 => 30 + r.below(5) as usize,
        8 => 60 + r.below(10) as usize,
        9 => 190 + r.below(6) as usize,
        10 => 200 + r.below(200) as usize,
        _ => r.below(70) as usize,
    }
}

fn gen_words(r: &mut Rng) -> Vec<u64> {
    let n = gen_len(r);
    let mut v = vec![0u64; n];
    match r.below(6) {
        0 => {
            for w in v.iter_mut() {
                *w = u64::MAX
            }
        }
        1 => {
            if n > 0 {
                let b = r.below(64);
                v[n - 1] = 1 << b;
            }
        }
        2 => {
            for w in v.iter_mut() {
                *w = match r.below(4) {
                    0 => 0,
                    1 => u64::MAX,
                    _ => r.next(),
                }
            }
        }
        3 => {
            // 2^k - small or 2^k + small
            if n > 0 {
                let b = r.below(64);
                v[n - 1] = 1 << b;
                v[0] |= r.below(3);
            }
        }
        _ => {
            for w in v.iter_mut() {
                *w = r.next()
            }
        }
    }
    v
}

fn to_d(v: &[u64]) -> UBig {
    UBig::from_words(v)
}
fn to_n(v: &[u64]) -> BigUint {
    let mut digits = Vec::new();
    for w in v {
        digits.push(*w as u32);
        digits.push((*w >> 32) as u32);
    }
    BigUint::new(digits)
}
fn d2n(d: &UBig) -> BigUint {
    to_n(d.as_words())
}
fn di2n(d: &IBig) -> BigInt {
    let (s, w) = d.as_sign_words();
    let m = to_n(w);
    BigInt::from_biguint(if s == Sign::Negative { NSign::Minus } else { NSign::Plus }, m)
}

fn main() {
    std::panic::set_hook(Box::new(|_| {}));
    let seed: u64 = std::env::args().nth(1).and_then(|s| s.parse().ok()).unwrap_or(12345);
    let iters: u64 = std::env::args().nth(2).and_then(|s| s.parse().ok()).unwrap_or(20000);
    let mut r = Rng(seed | 1);
    let mut fails: BTreeMap<String, (u64, String)> = BTreeMap::new();
    macro_rules! fail {
        ($k:expr, $d:expr) => {{
            let e = fails.entry($k.to_string()).or_insert((0, $d));
            e.0 += 1;
        }};
    }
    for _ in 0..iters {
        let (wa, wb) = (gen_words(&mut r), gen_words(&mut r));
        let (a, b) = (to_d(&wa), to_d(&wb));
        let (na, nb) = (to_n(&wa), to_n(&wb));
        let sa = r.below(2) == 0;
        let sb = r.below(2) == 0;
        let ia = IBig::from_parts(if sa { Sign::Negative } else { Sign::Positive }, a.clone());
        let ib = IBig::from_parts(if sb { Sign::Negative } else { Sign::Positive }, b.clone());
        let nia = if sa { -BigInt::from(na.clone()) } else { BigInt::from(na.clone()) };
        let nib = if sb { -BigInt::from(nb.clone()) } else { BigInt::from(nb.clone()) };
        let desc = format!("a={:?}{:x?} b={:?}{:x?}", sa, &wa[..wa.len().min(4)], sb, &wb[..wb.len().min(4)]);
        let desc = format!("{} lens={},{}", desc, wa.len(), wb.len());

        macro_rules! chk {
            ($name:expr, $dashu:expr, $conv:expr, $refv:expr) => {{
                match catch_unwind(AssertUnwindSafe(|| $dashu)) {
                    Ok(v) => {
                        if ($conv)(&v) != $refv {
                            fail!($name, desc.clone());
                        }
                    }
                    Err(e) => {
                        let msg = e.downcast_ref::<String>().cloned().or(e.downcast_ref::<&str>().map(|s| s.to_string())).unwrap_or_default();
                        fail!(format!("{} PANIC {}", $name, msg), desc.clone());
                    }
                }
            }};
        }
        chk!("uadd", &a + &b, d2n, &na + &nb);
        chk!("umul", &a * &b, d2n, &na * &nb);
        chk!("iadd", &ia + &ib, di2n, &nia + &nib);
        chk!("isub", &ia - &ib, di2n, &nia - &nib);
        chk!("imul", &ia * &ib, di2n, &nia * &nib);
        chk!("usqr", a.sqr(), d2n, &na * &na);
        if !nb.is_zero() {
            chk!("udiv", &a / &b, d2n, &na / &nb);
            chk!("urem", &a % &b, d2n, &na % &nb);
            chk!("idiv", &ia / &ib, di2n, &nia / &nib);
            chk!("irem", &ia % &ib, di2n, &nia % &nib);
            chk!("idiv_euclid", (&ia).div_euclid(&ib), di2n, nia.div_floor(&nib) + if nib.is_negative() && !(&nia % &nib).is_zero() { BigInt::one() } else { BigInt::zero() });
            chk!("irem_euclid", (&ia).rem_euclid(&ib), d2n, nia.mod_floor(&nib.abs()).to_biguint().unwrap());
        }
        if !(na.is_zero() && nb.is_zero()) {
            chk!("ugcd", (&a).gcd(&b), d2n, na.gcd(&nb));
            match catch_unwind(AssertUnwindSafe(|| (&a).gcd_ext(&b))) {
                Ok((g, s, t)) => {
                    if d2n(&g) != na.gcd(&nb) || di2n(&s) * BigInt::from(na.clone()) + di2n(&t) * BigInt::from(nb.clone()) != BigInt::from(d2n(&g)) {
                        fail!("ugcd_ext", desc.clone());
                    }
                }
                Err(e) => {
                    let msg = e.downcast_ref::<String>().cloned().or(e.downcast_ref::<&str>().map(|s| s.to_string())).unwrap_or_default();
                    fail!(format!("ugcd_ext PANIC {}", msg), desc.clone());
                }
            }
        }
        chk!("usqrt", a.sqrt(), d2n, na.sqrt());
        match catch_unwind(AssertUnwindSafe(|| a.sqrt_rem())) {
            Ok((s, rm)) => {
                if d2n(&s) != na.sqrt() || d2n(&rm) != &na - na.sqrt() * na.sqrt() {
                    fail!("usqrt_rem", desc.clone());
                }
            }
            Err(_) => fail!("usqrt_rem PANIC", desc.clone()),
        }
        chk!("ucbrt", a.cbrt(), d2n, na.cbrt());
        match catch_unwind(AssertUnwindSafe(|| a.cbrt_rem())) {
            Ok((s, rm)) => {
                if d2n(&s) != na.cbrt() || d2n(&rm) != &na - na.cbrt().pow(3) {
                    fail!("ucbrt_rem", desc.clone());
                }
            }
            Err(_) => fail!("ucbrt_rem PANIC", desc.clone()),
        }
        let n = 1 + r.below(9) as usize;
        chk!(format!("unth_root"), a.nth_root(n), d2n, na.nth_root(n as u32));
        // bit ops
        chk!("iand", &ia & &ib, di2n, &nia & &nib);
        chk!("ior", &ia | &ib, di2n, &nia | &nib);
        chk!("ixor", &ia ^ &ib, di2n, &nia ^ &nib);
        chk!("inot", !&ia, di2n, !&nia);
        let sh = match r.below(5) {
            0 => r.below(4) as usize * 64,
            1 => r.below(300) as usize,
            2 => wa.len() * 64 + r.below(3) as usize,
            _ => r.below(130) as usize,
        };
        chk!("ishr", &ia >> sh, di2n, &nia >> sh);
        chk!("ishl", &ia << sh, di2n, &nia << sh);
        chk!("ushr", &a >> sh, d2n, &na >> sh);
        chk!("ibit", ia.bit(sh), (|x: &bool| *x), nia.bit(sh as u64));
        chk!("utz", a.trailing_zeros(), (|x: &Option<usize>| *x), na.trailing_zeros().map(|x| x as usize));
        chk!("uto", a.trailing_ones(), (|x: &Option<usize>| x.unwrap()), (!BigInt::from(na.clone())).trailing_zeros().map(|x| x as usize).unwrap_or(0));
        chk!("icount_ones", a.count_ones(), (|x: &usize| *x), na.count_ones() as usize);
        chk!("bitlen", a.bit_len(), (|x: &usize| *x), na.bits() as usize);
        // radix io
        let radix = 2 + r.below(35) as u32;
        if wa.len() < 100 || r.below(8) == 0 {
            let s = na.to_str_radix(radix);
            chk!("ufmt", a.in_radix(radix).to_string(), (|x: &String| x.clone()), s.clone());
            chk!("uparse", UBig::from_str_radix(&s, radix).unwrap(), d2n, na.clone());
            chk!("ifmt", ia.in_radix(radix).to_string(), (|x: &String| x.clone()), nia.to_str_radix(radix));
        }
        // bytes
        chk!("ule", UBig::from_le_bytes(&a.to_le_bytes()), d2n, na.clone());
        chk!("ile", IBig::from_le_bytes(&ia.to_le_bytes()), di2n, nia.clone());
        chk!("ile_ref", ia.to_le_bytes().to_vec(), (|x: &Vec<u8>| x.clone()), if nia.is_zero() { vec![] } else { nia.to_signed_bytes_le() });
        chk!("ibe", IBig::from_be_bytes(&ia.to_be_bytes()), di2n, nia.clone());
        // to_f64
        chk!("uf64", a.to_f64().value(), (|x: &f64| x.to_bits()), na.to_f64().unwrap().to_bits());
        chk!("if32", ia.to_f32().value(), (|x: &f32| x.to_bits()), nia.to_f32().unwrap().to_bits());
        // ilog
        if nb > BigUint::one() && !na.is_zero() && wb.len() < 30 {
            let mut e = 0usize;
            let mut p = nb.clone();
            while p <= na {
                p *= &nb;
                e += 1;
            }
            chk!("uilog", a.ilog(&b), (|x: &usize| *x), e);
        }
        // pow
        if wa.len() <= 5 {
            let e = r.below(40) as usize;
            chk!("upow", a.pow(e), d2n, na.pow(e as u32));
        }
        let _ = (Word::MAX, nia.to_i64());
    }
    for (k, (c, d)) in &fails {
        println!("FAIL {k}: count={c} first: {d}");
    }
    println!("done iters={iters} distinct_fail_keys={}", fails.len());
}
