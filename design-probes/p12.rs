use dashu_base::EstimatedLog2;
use dashu_int::UBig;
fn chk(name: &str, x: f64, lb: f32, ub: f32, bad: &mut u32, worst: &mut f64) {
    let l = x.log2();
    if (lb as f64) > l + 1e-12 || (ub as f64) < l - 1e-12 { *bad += 1; if *bad < 10 { println!("{name} x={x} bounds=({lb},{ub}) log2={l}"); } }
    let w = (ub as f64 - lb as f64); if w > *worst { *worst = w; }
}
fn main() {
    let (mut bad, mut worst) = (0u32, 0f64);
    for x in 1..=u8::MAX { let (lb, ub) = x.log2_bounds(); chk("u8", x as f64, lb, ub, &mut bad, &mut worst); }
    for x in 1..=u16::MAX { let (lb, ub) = x.log2_bounds(); chk("u16", x as f64, lb, ub, &mut bad, &mut worst); }
    let mut s: u64 = 0x2545F4914F6CDD1D;
    for _ in 0..2_000_000 { s ^= s << 13; s ^= s >> 7; s ^= s << 17; let x = (s >> (s % 60)) | 1; let (lb, ub) = x.log2_bounds(); chk("u64", x as f64, lb, ub, &mut bad, &mut worst);
        let x32 = x as u32 | 1; let (lb, ub) = x32.log2_bounds(); chk("u32", x32 as f64, lb, ub, &mut bad, &mut worst);
        let big = (UBig::from(x) << (s % 300) as usize) + UBig::from(s); let (lb, ub) = big.log2_bounds(); let approx = (x as f64).log2() + (s % 300) as f64; if (lb as f64) > approx + 1e-6 + 1.0 || (ub as f64) < approx - 1e-6 { bad += 1; if bad < 10 { println!("UBig bounds=({lb},{ub}) approx={approx}"); } } }
    println!("bad={bad} widest={worst}");
}
